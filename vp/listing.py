"""
The listing model (DESIGN 1.3): a case spec describes an assembly listing
(sections -> blocks -> instructions / data units, labels, functions,
annotations) plus a list of edits.  This module

  * draws specs (Hypothesis strategies, spec-first),
  * normalises a spec into a Case (indices resolved modulo what exists, edit
    ranges made non-overlapping by construction),
  * builds the GTIRB module for a Case (input CFG derived from the listing),
  * registers the edits with a RewritingContext,
  * applies the edits to the listing with plain list operations and derives
    every expected observable (bytes, label positions, per-instruction control
    flow, annotation positions, function attribution).

It shares no code with the rewriter.
"""

from __future__ import annotations

import dataclasses
from typing import Dict, List, Optional, Tuple

from hypothesis import strategies as st

from . import isa as I
from .core import BadSpec

# ---------------------------------------------------------------------------
# strategies
# ---------------------------------------------------------------------------
_small = st.integers(0, 30)
ORD = ["nop", "nop2", "nop3", "xor", "push", "pop", "mark", "lea", "load", "cmpm"]
TERM = ["jmp", "jmp32", "je", "je", "call", "call", "call", "ijmp", "icall", "ret", "ret", "icallm", "ijmpm"]


def _ord_names(isa):
    tab = I.table(isa)
    return [n for n in ORD if n in tab]


def _term_names(isa):
    tab = I.table(isa)
    return [n for n in TERM if n in tab]  # (duplicates = weights)


def insn_st(isa, names):
    return st.fixed_dictionaries(
        {"t": st.sampled_from(names), "sym": _small, "imm": st.integers(0, 0xFFFF),
         "add": st.sampled_from([0, 0, 0, 4, 8])}
    )


_CFI_EV = st.sampled_from(["S", "S", "S", "Sp", "E", "E", "ADJ+", "ADJ+", "ADJ-", "OFF", "REM", "REM", "RES", "RES",
                            "DEF", "REG"])
_CFI_ITEM = st.fixed_dictionaries({"i": st.sampled_from([0, 0, 0, 1, 2, 3, 99, 99]),
                                   "ev": st.lists(_CFI_EV, min_size=1, max_size=3)})


# a block with "iv" starts a new byte interval (contiguous address) unless it is
# the first block of its section
_IV_CHOICES = [False, False, False, False, True]


def block_st(isa, cfg, data_ok=True, only_data=False, cfi=False):
    ords = _ord_names(isa)
    terms = _term_names(isa) if cfg else []
    maxi = 4
    code = st.fixed_dictionaries({
        "code": st.just(True),
        "body": st.lists(insn_st(isa, ords), min_size=0, max_size=maxi),
        "term": (st.one_of(st.none(), insn_st(isa, terms)) if terms else st.none()),
        "nl": st.sampled_from([0, 1, 1, 2, 3]),
        "ne": st.sampled_from([0, 0, 1, 2]),
        "fn": st.sampled_from([None, 0, 0, 0, 1, 1, 2, 3]),
        "entry": st.booleans(),
        "notes": st.lists(st.integers(0, 40), max_size=4),
        "iv": st.sampled_from(_IV_CHOICES),
        **({"cfi": st.lists(_CFI_ITEM, max_size=3)} if cfi else {}),
    })
    unit = st.fixed_dictionaries({
        "bytes": st.lists(st.integers(0, 255), min_size=1, max_size=4),
        "sym": st.one_of(st.none(), st.none(), _small),
        "add": st.sampled_from([0, 0, 8]),
    })
    data = st.fixed_dictionaries({
        "code": st.just(False),
        "units": st.lists(unit, min_size=1, max_size=3),
        "nl": st.sampled_from([0, 1, 1, 2]),
        "ne": st.sampled_from([0, 0, 1]),
        "notes": st.lists(st.integers(0, 40), max_size=3),
        "iv": st.sampled_from(_IV_CHOICES),
    })
    if only_data:
        return data
    if not data_ok:
        return code
    return st.one_of(code, code, code, data)


def patch_st(isa, cfg, data_ok=True, cfi=False, pdata=False, palign=False):
    ords = _ord_names(isa)
    terms = [n for n in _term_names(isa) if I.table(isa)[n].patch] if cfg else []
    toks = [insn_st(isa, ords)] * 4
    if pdata:
        toks += [st.fixed_dictionaries({"pd": st.just("byte"), "v": st.lists(st.integers(0, 255), min_size=1, max_size=3)}),
                 st.fixed_dictionaries({"pd": st.sampled_from(["string", "ascii"]), "s": st.sampled_from(["a", "hi"])})]
    if palign:
        # alignment directive inside a patch: no bytes, starts a block that carries an alignment entry
        toks += [st.fixed_dictionaries({"al": st.integers(0, 4)})]
    else:
        # everywhere else only `.balign 1`: it splits the patch's block (new block, fallthrough edge, alignment
        # entry 1) without ever asking for padding, so positions stay those of the listing
        toks += [st.fixed_dictionaries({"al": st.just(0)})]
    if cfi:
        toks += [st.fixed_dictionaries({"cfi": st.sampled_from(["adj+", "adj+", "adj-", "rem", "res"])})] * 2
    if terms:
        toks.append(insn_st(isa, terms))
    toks.append(st.fixed_dictionaries({"lab": st.integers(0, 2), "temp": st.booleans()}))
    return st.fixed_dictionaries({"toks": st.lists(st.one_of(*toks), min_size=1, max_size=5)})


def edit_st(isa, cfg, cfi=False, pdata=False, palign=False):
    p = patch_st(isa, cfg, cfi=cfi, pdata=pdata, palign=palign)
    cb = st.sampled_from([True, True, True, False])
    ins = st.fixed_dictionaries({"op": st.just("insert"), "cb": cb, "b": _small, "i": st.sampled_from([0, 0, 1, 2, 3, 99]), "patch": p})
    rep = st.fixed_dictionaries({"op": st.just("replace"), "cb": cb, "b": _small, "i": st.integers(0, 4),
                                 "n": st.sampled_from([1, 1, 2, 99]), "patch": p})
    dele = st.fixed_dictionaries({"op": st.just("delete"), "cb": cb, "b": _small, "i": st.sampled_from([0, 0, 0, 1, 2]),
                                  "n": st.sampled_from([0, 1, 1, 2, 99, 99, 99]), "proxy": st.booleans()})
    return st.one_of(ins, ins, rep, dele, dele)


_ST_CACHE = {}


def _with_chains(edit):
    """One element in eight is a chain: whole-block deletions of 2-4 consecutive (code) blocks, each with its own
    retarget_to_proxy flag - the shape in which labels slide across several deleted blocks."""
    chain = st.tuples(_small, st.booleans(), st.lists(st.booleans(), min_size=2, max_size=4)).map(
        lambda t: [{"op": "delete", "cb": t[1], "b": t[0] + j, "i": 0, "n": 99, "proxy": p} for j, p in enumerate(t[2])])
    return st.one_of(edit, edit, edit, edit, edit, edit, edit, chain)


def _flatten(items):
    out = []
    for it in items:
        out.extend(it if isinstance(it, list) else [it])
    return out


def scope_edit_st(isa):
    ords = [n for n in _ord_names(isa) if n in ("nop", "nop2", "xor", "push", "pop", "mark")]
    p = st.fixed_dictionaries({"toks": st.lists(insn_st(isa, ords), min_size=1, max_size=2)})
    return st.fixed_dictionaries({"op": st.just("scope"), "kind": st.sampled_from(["all", "single", "single"]),
                                  "pos": st.sampled_from(["entry", "exit"]), "b": _small, "patch": p})


def case_st(tier, pairs=None, cfg=True, max_edits=None, min_edits=1, scopes=False, cfi=False, pdata=False, ivs=False,
            palign=False):
    pairs = pairs or I.PAIRS
    nb = 6 if tier == "quick" else 10
    ne = max_edits or (5 if tier == "quick" else 9)

    def build(pair):
        key = (pair, tier, cfg, ne, min_edits, scopes, cfi, pdata, ivs, palign)
        if key not in _ST_CACHE:
            _ST_CACHE[key] = _build(pair)
        return _ST_CACHE[key]

    def _build(pair):
        isa, fmt = pair
        use_cfg = cfg and isa != "mips32"
        blk = block_st(isa, use_cfg, cfi=cfi)
        sec0 = st.fixed_dictionaries({"name": st.just(".text"), "blocks": st.lists(blk, min_size=1, max_size=nb)})
        datablk = block_st(isa, use_cfg, only_data=True)
        sec1 = st.fixed_dictionaries({"name": st.just(".data"), "blocks": st.lists(datablk, min_size=1, max_size=3)})
        sec2 = st.fixed_dictionaries({"name": st.just(".text2"), "blocks": st.lists(blk, min_size=1, max_size=3)})
        secs = st.tuples(sec0, st.one_of(st.none(), sec1), st.one_of(st.none(), st.none(), sec2)).map(
            lambda t: [s for s in t if s is not None])
        return st.fixed_dictionaries({
            "isa": st.just(isa), "fmt": st.just(fmt),
            "sections": secs,
            "funcs": st.sampled_from([True, True, True, False]),
            "entry": st.one_of(st.none(), _small),
            "cfi": st.just(bool(cfi)),
            "multi_iv": (st.booleans() if ivs else st.just(False)),
            "eorder": st.one_of(st.just(0), st.integers(0, 255)),
            "isyms": st.sampled_from([False, False, True]),
            "edits": st.lists((st.one_of(edit_st(isa, use_cfg, pdata=pdata), edit_st(isa, use_cfg, pdata=pdata), scope_edit_st(isa))
                               if scopes else _with_chains(edit_st(isa, use_cfg, cfi=cfi, pdata=pdata, palign=palign))),
                              min_size=min_edits, max_size=ne).map(_flatten),
        })

    return st.sampled_from(pairs).flatmap(build)


# ---------------------------------------------------------------------------
# Case: the normalised spec
# ---------------------------------------------------------------------------
@dataclasses.dataclass
class Unit:
    """One instruction or data unit of the listing."""
    data: bytes
    kind: str                 # ord/jmp/jcc/call/ret/ijmp/icall/data
    sym: Optional[str] = None  # name of the symbol in the operand
    addend: int = 0
    field: Optional[Tuple[int, int]] = None  # (offset, size) of the operand
    text: Optional[str] = None  # assembly text (patch tokens)
    origin: tuple = ()
    func: Optional[str] = None
    notes: dict = dataclasses.field(default_factory=dict)  # table -> {inner offset: value}
    deleted: bool = False


@dataclasses.dataclass
class Label:
    name: str
    binding: str  # start | end | patch
    origin: tuple = ()
    temp: bool = False


@dataclasses.dataclass
class Cfi:
    """One CFI directive of the listing."""
    name: str
    args: list
    sym: Optional[str] = None
    origin: tuple = ()


CFI_EVENTS = {
    "S": [(".cfi_startproc", [], None), (".cfi_def_cfa", [7, 8], None), (".cfi_offset", [16, -8], None)],
    "Sp": [(".cfi_startproc", [], None), (".cfi_personality", [0x9B], "ext0"), (".cfi_lsda", [0x1B], "ext1"),
           (".cfi_def_cfa", [7, 8], None), (".cfi_offset", [16, -8], None)],
    "E": [(".cfi_endproc", [], None)],
    "ADJ+": [(".cfi_adjust_cfa_offset", [8], None)],
    "ADJ-": [(".cfi_adjust_cfa_offset", [-8], None)],
    "OFF": [(".cfi_offset", [6, -16], None)],
    "REM": [(".cfi_remember_state", [], None)],
    "RES": [(".cfi_restore_state", [], None)],
    "DEF": [(".cfi_def_cfa_offset", [16], None)],
    "REG": [(".cfi_def_cfa_register", [6], None)],
}
PATCH_CFI = {
    "adj+": (".cfi_adjust_cfa_offset", [8]), "adj-": (".cfi_adjust_cfa_offset", [-8]),
    "rem": (".cfi_remember_state", []), "res": (".cfi_restore_state", []),
    "undef": (".cfi_undefined", [3]),
}


@dataclasses.dataclass
class Block:
    gidx: int
    sec: int
    code: bool
    units: List[Unit]
    labels: List[str]
    end_labels: List[str]
    func: Optional[str]
    entry: bool
    uoffs: List[int] = dataclasses.field(default_factory=list)
    newiv: bool = False

    @property
    def size(self):
        return sum(len(u.data) for u in self.units)


@dataclasses.dataclass
class Edit:
    reg: int         # registration order
    op: str          # insert/replace/delete
    b: int
    i: int
    n: int
    proxy: bool = False
    patch: Optional[dict] = None
    raw: Optional[bytes] = None
    scope: Optional[tuple] = None   # (kind, position) for register_insert


class Case:
    def __init__(self, spec, *, allow_after_full_delete=False):
        try:
            self._init(spec, allow_after_full_delete)
        except (KeyError, TypeError, IndexError, AttributeError, ValueError) as e:
            raise BadSpec(f"{type(e).__name__}: {e}")

    def _init(self, spec, allow_after_full_delete):
        self.spec = spec
        self.isa = spec["isa"]
        self.fmt = spec["fmt"]
        if (self.isa, self.fmt) not in I.TRIPLES:
            raise BadSpec("isa/fmt")
        self.tab = I.table(self.isa)
        self.blocks: List[Block] = []
        self.sections: List[Tuple[str, List[int]]] = []
        self.externs = ["ext0", "ext1"]
        use_funcs = bool(spec.get("funcs"))
        raw_blocks = []
        for si, sec in enumerate(spec["sections"]):
            idxs = []
            for rb in sec["blocks"]:
                g = len(raw_blocks)
                raw_blocks.append((si, rb))
                idxs.append(g)
            if not idxs:
                raise BadSpec("empty section")
            self.sections.append((sec["name"], idxs))
        if len({n for n, _ in self.sections}) != len(self.sections):
            raise BadSpec("duplicate section names")
        # labels first (instructions refer to them)
        self.code_labels: List[str] = []
        self.all_labels: List[str] = []
        self.label_block: Dict[str, Tuple[int, str]] = {}
        lab = []
        for g, (si, rb) in enumerate(raw_blocks):
            code = bool(rb["code"])
            func = None
            if code and use_funcs and rb.get("fn") is not None:
                func = f"f{si}_{rb['fn'] % 4}"
            nl = rb.get("nl", 0) % 4
            names = [f"B{g}_{k}" for k in range(nl)]
            ends = [f"E{g}_{k}" for k in range(rb.get("ne", 0) % 3)]
            lab.append((names, ends, func))
        # functions: first block of each function is an entry and carries the
        # function's name as an extra label
        self.funcs: Dict[str, List[int]] = {}
        self.entries: Dict[str, List[int]] = {}
        self.func_symname: Dict[str, str] = {}
        main_k = spec.get("main")
        for g, (si, rb) in enumerate(raw_blocks):
            names, ends, func = lab[g]
            if func is not None:
                first = func not in self.funcs
                self.funcs.setdefault(func, []).append(g)
                if first:
                    symname = func
                    if main_k is not None and len(self.funcs) - 1 == main_k:
                        symname = "main"
                    self.func_symname[func] = symname
                    names.insert(0, symname)
                    self.entries[func] = [g]
                elif rb.get("entry") and g % 3 == 0:
                    self.entries[func].append(g)
            for n in names:
                self.label_block[n] = (g, "start")
                self.all_labels.append(n)
                if rb["code"]:
                    self.code_labels.append(n)
            for n in ends:
                self.label_block[n] = (g, "end")
                self.all_labels.append(n)
        # units
        for g, (si, rb) in enumerate(raw_blocks):
            names, ends, func = lab[g]
            units = []
            if rb["code"]:
                body = list(rb.get("body", []))
                if rb.get("term") is not None:
                    body.append(rb["term"])
                if not body:
                    body = [{"t": "nop", "sym": 0, "imm": 0}]
                # realistic input: code never falls off into data or off the
                # end of its section (the input CFG would otherwise lack a
                # fallthrough edge that the listing implies)
                sec_blocks = [rb2 for (si2, rb2) in raw_blocks if si2 == si]
                kpos = sec_blocks.index(rb) if rb in sec_blocks else -1
                nxt_code = False
                pos_in_sec = [gg for gg, (si2, _r) in enumerate(raw_blocks) if si2 == si]
                me = pos_in_sec.index(g)
                if me + 1 < len(pos_in_sec):
                    nxt_code = bool(raw_blocks[pos_in_sec[me + 1]][1]["code"])
                lastk = self.tab[body[-1]["t"]].kind if body[-1]["t"] in self.tab else "ord"
                if not nxt_code and lastk in I.FALLS and "ret" in self.tab:
                    if lastk == "ord":
                        body.append({"t": "ret", "sym": 0, "imm": 0})
                    else:
                        body[-1] = {"t": "ret", "sym": 0, "imm": 0}
                for k, ri in enumerate(body):
                    tpl = self.tab.get(ri["t"])
                    if tpl is None:
                        raise BadSpec(f"template {ri['t']}")
                    last = k == len(body) - 1
                    if tpl.kind in I.TRANSFER and not last:
                        raise BadSpec("transfer in the middle of a block")
                    u = self._unit_from_tpl(tpl, ri, for_patch=False)
                    u.origin = ("orig", g, k)
                    u.func = func
                    units.append(u)
            else:
                for k, ru in enumerate(rb["units"]):
                    bs = bytes(b & 0xFF for b in ru["bytes"])
                    if not bs:
                        raise BadSpec("empty data unit")
                    u = Unit(bs, "data", origin=("orig", g, k))
                    if ru.get("sym") is not None:
                        width = 8 if self.isa in ("x64", "arm64") else 4
                        u.data = bytes(width)
                        pool = self.all_labels + self.externs
                        u.sym = pool[ru["sym"] % len(pool)]
                        u.addend = ru.get("add", 0)
                        u.field = (0, width)
                    units.append(u)
            blk = Block(g, si, bool(rb["code"]), units, names, ends, func, g in self.entries.get(func or "", []))
            blk.newiv = bool(rb.get("iv")) and bool(spec.get("multi_iv")) and g != self.sections[si][1][0]
            off = 0
            for u in units:
                blk.uoffs.append(off)
                off += len(u.data)
            # notes (comments / padding tables) keyed at unit starts
            for k, nv in enumerate(rb.get("notes", [])):
                u = units[nv % len(units)]
                table = ("comments", "padding")[k % 2]
                key = "block" if (nv // 7) % 2 == 0 else "interval"
                if any(t == table for (t, _k) in u.notes):
                    continue
                u.notes[(table, key)] = {0: (f"c{g}_{k}" if table == "comments" else 1 + nv % 5)}
            self.blocks.append(blk)
        self.cfi: Dict[Tuple[int, int], list] = {}
        if spec.get("cfi"):
            self._build_cfi(raw_blocks)
        ent = spec.get("entry")
        codeblocks = [b.gidx for b in self.blocks if b.code]
        self.entry_block = codeblocks[ent % len(codeblocks)] if (ent is not None and codeblocks) else None
        self._norm_edits(spec.get("edits", []), allow_after_full_delete)

    def _build_cfi(self, raw_blocks):
        """Turn the per-block CFI events into a well-formed directive map
        (startproc/endproc alternate, procedures never span data or section
        ends, restore_state only with a non-empty stack)."""
        for si, (name, idxs) in enumerate(self.sections):
            inproc = False
            depth = 0
            last_code = None
            started_units = 0
            start_ref = None

            def close():
                nonlocal inproc
                if started_units:
                    self.cfi.setdefault((last_code, len(self.blocks[last_code].units)), []).extend(CFI_EVENTS["E"])
                elif start_ref is not None:
                    del start_ref[0][start_ref[1]:]   # drop the empty procedure
                inproc = False

            for g in idxs:
                b = self.blocks[g]
                if not b.code:
                    if inproc and last_code is not None:
                        close()
                    continue
                last_code = g
                evs = {}
                for item in raw_blocks[g][1].get("cfi", []) or []:
                    i = min(item["i"], len(b.units))
                    evs.setdefault(i, []).extend(item["ev"])
                nu = len(b.units)
                for i in range(nu + 1):
                    for ev in evs.get(i, []):
                        if ev not in CFI_EVENTS:
                            raise BadSpec(f"cfi event {ev}")
                        out = self.cfi.setdefault((g, i), [])
                        if ev in ("S", "Sp"):
                            if inproc:
                                if not started_units:
                                    continue  # would close an empty procedure
                                out.extend(CFI_EVENTS["E"])
                            out.extend(CFI_EVENTS[ev])
                            inproc, depth, started_units = True, 0, 0
                            start_ref = (out, len(out) - len(CFI_EVENTS[ev]))
                        elif not inproc:
                            continue
                        elif ev == "E":
                            if not started_units:
                                continue
                            out.extend(CFI_EVENTS["E"])
                            inproc = False
                        elif ev == "RES":
                            if depth > 0:
                                depth -= 1
                                out.extend(CFI_EVENTS[ev])
                        else:
                            if ev == "REM":
                                depth += 1
                            out.extend(CFI_EVENTS[ev])
                    if i < nu and inproc:
                        started_units += 1
            if inproc and last_code is not None:
                close()
        self.cfi = {k: v for k, v in self.cfi.items() if v}

    def _raw_block(self, e):
        if e.get("op") == "scope":
            return -1
        b = e.get("b", 0) % len(self.blocks)
        if e.get("cb"):
            codeb = [bb.gidx for bb in self.blocks if bb.code]
            if codeb:
                b = codeb[e["b"] % len(codeb)]
        return b

    def fname(self, f):
        """name of the function's symbol (functionNames)"""
        return self.func_symname.get(f, f)

    # -- helpers ---------------------------------------------------------
    def _unit_from_tpl(self, tpl, ri, for_patch, own_labels=()):
        u = Unit(I.encode(self.isa, tpl, ri.get("imm", 0)), tpl.kind)
        if tpl.symfield is not None:
            if tpl.kind in ("jmp", "jcc", "call"):
                pool = list(own_labels) + self.code_labels + self.externs
            else:
                pool = list(own_labels) + self.all_labels + self.externs
                if tpl.kind == "ord":
                    u.addend = ri.get("add", 0) or 0
            u.sym = pool[ri.get("sym", 0) % len(pool)]
            u.field = tpl.symfield
        return u

    def _norm_edits(self, raw, allow_after_full_delete):
        self.edits: List[Edit] = []
        self.dropped = {"overlap": 0, "touching_after": 0, "after_full_delete": 0}
        taken: Dict[int, list] = {}
        def conflicts(b, lo, hi):
            for (s_, t_, r2) in taken.get(b, []):
                if s_ < t_ and lo < hi:
                    if s_ < hi and lo < t_:
                        return "overlap"
                elif lo == hi and s_ < t_:
                    if s_ < lo < t_:
                        return "overlap"
                    elif lo == s_:
                        return "touching_after"
                elif lo < hi and s_ == t_:
                    if lo < s_ < hi:
                        return "overlap"
            return None

        for reg, e in enumerate(raw):
            op = e["op"]
            if op == "scope":
                code = [bb.gidx for bb in self.blocks if bb.code]
                if not code:
                    continue
                targets = code if e["kind"] == "all" else [code[e["b"] % len(code)]]
                new = []
                bad = None
                for g in targets:
                    blk = self.blocks[g]
                    nu = len(blk.units)
                    if e["pos"] == "entry":
                        i = 0
                    else:
                        i = nu - 1 if blk.units[-1].kind in I.TRANSFER else nu
                    bad = bad or conflicts(g, i, i)
                    new.append(Edit(reg, "insert", g, i, 0, patch=e["patch"], scope=(e["kind"], e["pos"], targets[0])))
                if bad:
                    self.dropped[bad] += 1
                    continue
                for ed in new:
                    taken.setdefault(ed.b, []).append((ed.i, ed.i, reg))
                    self.edits.append(ed)
                continue
            b = e["b"] % len(self.blocks)
            if e.get("cb"):
                # bias towards code blocks
                codeb = [bb.gidx for bb in self.blocks if bb.code]
                if codeb:
                    b = codeb[e["b"] % len(codeb)]
            blk = self.blocks[b]
            nu = len(blk.units)
            i = min(e.get("i", 0), nu) if e.get("i", 0) >= 0 else 0
            if op == "insert":
                n = 0
            else:
                n = min(e.get("n", 0), nu - i)
                if n < 0:
                    raise BadSpec("n")
            if op == "replace" and n == 0:
                op = "insert"
            lo, hi = i, i + n
            conflict = None
            for (s, t, r2) in taken.get(b, []):
                if s < t and lo < hi:
                    if s < hi and lo < t:
                        conflict = "overlap"
                elif lo == hi and s < t:
                    if s < lo < t:
                        conflict = "overlap"
                    elif lo == s:
                        conflict = "touching_after"  # ours registered later, sorts after
                elif lo < hi and s == t:
                    if lo < s < hi:
                        conflict = "overlap"
            if conflict:
                self.dropped[conflict] += 1
                continue
            ed = Edit(reg, op, b, i, n)
            if op == "delete":
                # retarget_to_proxy together with other edits of the same
                # block is ambiguous (is the block "wholly deleted"?): the
                # flag is only kept when the deletion is the block's sole edit
                ed.proxy = (bool(e.get("proxy")) and i == 0 and n == nu
                            and not any(e2.b == b for e2 in self.edits) and not any(
                                self._raw_block(x) == b for k2, x in enumerate(raw) if k2 > reg))
            else:
                ed.patch = e["patch"]
                if not ed.patch.get("toks"):
                    raise BadSpec("empty patch")
            taken.setdefault(b, []).append((lo, hi, reg))
            self.edits.append(ed)
        if not allow_after_full_delete:
            # finding C01-after-full-delete: nothing may sort after a deletion
            # that reaches the end of its block
            bad_regs = set()
            for ed in self.edits:
                nu = len(self.blocks[ed.b].units)
                for o in self.edits:
                    if o is ed or o.b != ed.b or o.op != "delete" or o.n == 0:
                        continue
                    if o.i + o.n == nu and (ed.i, ed.reg) > (o.i, o.reg):
                        bad_regs.add(ed.reg)
            # (a register_insert scope is dropped as a whole)
            self.dropped["after_full_delete"] += len(bad_regs)
            self.edits = [ed for ed in self.edits if ed.reg not in bad_regs]

    def byte_off(self, b, i):
        blk = self.blocks[b]
        return blk.uoffs[i] if i < len(blk.units) else blk.size

    # -- patches ---------------------------------------------------------
    def patch_units(self, ed: Edit):
        """Expand a patch spec into listing items + assembly text."""
        toks = ed.patch["toks"]
        own = []
        host = self.blocks[ed.b]
        tp = I.temp_prefix(self.isa, self.fmt)
        for t in toks:
            if "lab" in t:
                nm = (f"{tp}p{ed.reg}_{t['lab'] % 3}" if t.get("temp") else f"g{ed.reg}_{t['lab'] % 3}")
                if nm not in own:
                    own.append(nm)
        items = []
        lines = []
        defined = set()
        if not host.code:
            # code patches in data blocks: ordinary instructions only (control
            # flow into or out of data is outside the modelled domain)
            toks = [t for t in toks if "lab" not in t and "cfi" not in t and ("pd" in t or "al" in t or self.tab[t["t"]].kind == "ord")]
            own = []
        # balance the patch's own CFI
        if any("cfi" in t for t in toks):
            bal, stack = [], []
            for t in toks:
                if "cfi" in t:
                    c = t["cfi"]
                    if c in ("adj+", "rem"):
                        stack.append(c)
                    elif c == "adj-":
                        if not stack or stack[-1] != "adj+":
                            continue
                        stack.pop()
                    elif c == "res":
                        if not stack or stack[-1] != "rem":
                            continue
                        stack.pop()
                    else:
                        continue
                bal.append(t)
            # properly nested: close what is still open, innermost first
            toks = bal + [{"cfi": "adj-" if c == "adj+" else "res"} for c in reversed(stack)]
        if not any("lab" not in t and "cfi" not in t and "pd" not in t and "al" not in t for t in toks) and not any("pd" in t for t in toks):
            toks = list(toks) + [{"t": "nop", "sym": 0, "imm": 0}]
        for k, t in enumerate(toks):
            if "lab" in t:
                nm = (f"{tp}p{ed.reg}_{t['lab'] % 3}" if t.get("temp") else f"g{ed.reg}_{t['lab'] % 3}")
                if nm in defined:
                    continue
                defined.add(nm)
                items.append(Label(nm, "patch", ("patch", ed.reg, k), temp=bool(t.get("temp"))))
                lines.append(f"{nm}:")
                continue
            if "pd" in t:
                if t["pd"] == "byte":
                    bs = bytes(b & 0xFF for b in t["v"]) or b"\0"
                    line = ".byte " + ", ".join(str(b) for b in bs)
                else:
                    bs = t["s"].encode() + (b"\0" if t["pd"] == "string" else b"")
                    line = f'.{t["pd"]} "{t["s"]}"'
                u = Unit(bs, "data", origin=("patch", ed.reg, k))
                u.text = line
                items.append(u)
                lines.append(line)
                continue
            if "al" in t:
                # occupies no bytes (pinned by tests/test_rewriting.py::test_align: no padding inside the interval)
                lines.append(f".balign {1 << (t['al'] % 5)}")
                continue
            if "cfi" in t:
                nm, args = PATCH_CFI[t["cfi"]]
                items.append(Cfi(nm, list(args), None, ("patch", ed.reg, k)))
                lines.append(nm + (" " + ", ".join(str(a) for a in args) if args else ""))
                continue
            tpl = self.tab.get(t["t"])
            if tpl is None or not tpl.patch:
                raise BadSpec(f"patch template {t.get('t')}")
            u = self._unit_from_tpl(tpl, t, for_patch=True, own_labels=own)
            u.origin = ("patch", ed.reg, k)
            u.func = host.func if host.code else None
            symtext = u.sym
            if u.sym is not None and u.addend:
                symtext = f"{u.sym}{u.addend:+d}"
            u.text = I.render(self.isa, tpl, symtext, t.get("imm", 0))
            items.append(u)
            lines.append(u.text)
        # a label at the very end of a patch designates the position after it
        return items, "\n".join(lines) + "\n"


# ---------------------------------------------------------------------------
# Expected listing after the edits
# ---------------------------------------------------------------------------
@dataclasses.dataclass
class ExpInsn:
    sec: int
    pos: int
    unit: Unit


class Expected:
    """The edited listing and everything derived from it."""

    def __init__(self, case: Case):
        self.case = case
        c = case
        pre: Dict[Tuple[int, int], list] = {}
        self.deleted_blocks = set()
        self.proxy_blocks = set()
        for b in c.blocks:
            for u in b.units:
                u.deleted = False
        for ed in sorted(c.edits, key=lambda e: e.reg):
            if ed.op in ("insert", "replace"):
                items, _ = c.patch_units(ed)
                pre.setdefault((ed.b, ed.i), []).append((ed, items))
            if ed.op in ("replace", "delete"):
                for k in range(ed.i, ed.i + ed.n):
                    c.blocks[ed.b].units[k].deleted = True
        for b in c.blocks:
            has_patch = any((b.gidx, i) in pre for i in range(len(b.units) + 1))
            if all(u.deleted for u in b.units) and not has_patch:
                self.deleted_blocks.add(b.gidx)
                if any(e.b == b.gidx and e.op == "delete" and e.proxy for e in c.edits):
                    self.proxy_blocks.add(b.gidx)
        # flatten
        self.sec_items: List[list] = []
        self.sec_bytes: List[bytes] = []
        self.labels: Dict[str, tuple] = {}        # name -> ("pos", sec, pos) | ("proxy", gidx)
        self.insns: List[List[ExpInsn]] = []
        self.patch_labels: Dict[str, tuple] = {}
        self.block_start: Dict[int, tuple] = {}
        self.streams: List[list] = []
        for si, (name, idxs) in enumerate(c.sections):
            items = []
            for g in idxs:
                b = c.blocks[g]
                items.append(("blockstart", g))
                for n in b.labels:
                    items.append(Label(n, "start", ("orig", g)))
                def cfi_split(i):
                    ds = [Cfi(n_, list(a_), s_, ("orig", g, i)) for (n_, a_, s_) in c.cfi.get((g, i), [])]
                    k = next((j for j, d in enumerate(ds) if d.name == ".cfi_endproc"), len(ds))
                    return ds[:k], ds[k:]

                for i, u in enumerate(b.units):
                    keep, move = cfi_split(i)
                    items.extend(keep)
                    for ed, pitems in pre.get((g, i), []):
                        items.append(("patchstart", ed.reg, g))
                        items.extend(pitems)
                    items.extend(move)
                    if not u.deleted:
                        items.append(u)
                keep, move = cfi_split(len(b.units))
                items.extend(keep)
                for ed, pitems in pre.get((g, len(b.units)), []):
                    items.append(("patchstart", ed.reg, g))
                    items.extend(pitems)
                items.extend(move)
                for n in b.end_labels:
                    items.append(Label(n, "end", ("orig", g)))
            pos = 0
            data = bytearray()
            insns = []
            stream = []
            for it in items:
                if isinstance(it, tuple):
                    if it[0] == "blockstart":
                        self.block_start[it[1]] = (si, pos)
                    else:
                        stream.append(it)
                    continue
                if isinstance(it, Cfi):
                    stream.append(("cfi", pos, it))
                    continue
                if isinstance(it, Label):
                    if it.binding == "patch":
                        self.patch_labels[it.name] = (si, pos, it.temp)
                    elif it.origin[1] in self.proxy_blocks:
                        self.labels[it.name] = ("proxy", it.origin[1])
                    else:
                        self.labels[it.name] = ("pos", si, pos)
                else:
                    insns.append(ExpInsn(si, pos, it))
                    stream.append(("insn", pos, it))
                    data += it.data
                    pos += len(it.data)
            self.streams.append(stream)
            self.sec_items.append(items)
            self.sec_bytes.append(bytes(data))
            self.insns.append(insns)

    def moved_labels(self):
        """labels whose position differs from the input listing"""
        c = self.case
        out = 0
        for si, (name, idxs) in enumerate(c.sections):
            pos = 0
            for g in idxs:
                b = c.blocks[g]
                for n in b.labels:
                    if self.labels.get(n) != ("pos", si, pos):
                        out += 1
                pos += b.size
                for n in b.end_labels:
                    if self.labels.get(n) != ("pos", si, pos):
                        out += 1
        return out


# ---------------------------------------------------------------------------
# Building the GTIRB module
# ---------------------------------------------------------------------------
class Built:
    pass


def build(case: Case, *, cfi=None) -> Built:
    import uuid as _uuid

    import gtirb

    c = case
    ir = gtirb.IR()
    m = gtirb.Module(name="m", isa=I.gtirb_isa(c.isa), file_format=I.gtirb_fmt(c.fmt), ir=ir)
    m.byte_order = gtirb.Module.ByteOrder.Big if c.isa == "mips32" else gtirb.Module.ByteOrder.Little
    out = Built()
    out.ir, out.module, out.case = ir, m, c
    out.blocks = {}
    out.symbols = {}
    out.sections = []
    out.intervals = []
    out.proxies = {}
    sym_exprs = []
    notes = {"comments": {}, "padding": {}}
    addr = 0x10000
    flags_code = {gtirb.Section.Flag.Readable, gtirb.Section.Flag.Executable,
                  gtirb.Section.Flag.Loaded, gtirb.Section.Flag.Initialized}
    flags_data = {gtirb.Section.Flag.Readable, gtirb.Section.Flag.Writable,
                  gtirb.Section.Flag.Loaded, gtirb.Section.Flag.Initialized}
    for si, (name, idxs) in enumerate(c.sections):
        anycode = any(c.blocks[g].code for g in idxs)
        sec = gtirb.Section(name=name, flags=set(flags_code if anycode else flags_data), module=m)
        bi = None
        out.intervals.append([])
        iv_addr = addr
        for g in idxs:
            b = c.blocks[g]
            if bi is None or b.newiv:
                group = [g]
                for g2 in idxs[idxs.index(g) + 1:]:
                    if c.blocks[g2].newiv:
                        break
                    group.append(g2)
                contents = b"".join(u.data for g2 in group for u in c.blocks[g2].units)
                bi = gtirb.ByteInterval(contents=contents, address=iv_addr, section=sec)
                iv_addr += len(contents)
                if not out.intervals[-1]:
                    out.sections.append((sec, bi))
                out.intervals[-1].append(bi)
                off = 0
            cls = gtirb.CodeBlock if b.code else gtirb.DataBlock
            blk = cls(offset=off, size=b.size, byte_interval=bi)
            out.blocks[g] = blk
            for k, u in enumerate(b.units):
                if u.sym is not None:
                    sym_exprs.append((bi, off + b.uoffs[k] + u.field[0], u))
                for (table, key), entries in u.notes.items():
                    for inner, val in entries.items():
                        if key == "block":
                            notes[table][gtirb.Offset(blk, b.uoffs[k] + inner)] = val
                        else:
                            notes[table][gtirb.Offset(bi, off + b.uoffs[k] + inner)] = val
            off += b.size
        addr += 0x10000
    for n in c.externs:
        p = gtirb.ProxyBlock(module=m)
        out.proxies[n] = p
        out.symbols[n] = gtirb.Symbol(name=n, payload=p, module=m)
    for n, (g, binding) in c.label_block.items():
        out.symbols[n] = gtirb.Symbol(name=n, payload=out.blocks[g], at_end=(binding == "end"), module=m)
    # symbols that label nothing: an absolute value and a symbol without any payload (both legal GTIRB; every
    # walk over module.symbols / Symbol.referent has to cope with them)
    out.value_symbols = {}
    if c.spec.get("isyms"):
        out.value_symbols["absval0"] = (gtirb.Symbol(name="absval0", payload=0x4242, module=m), 0x4242)
        out.value_symbols["nopayload0"] = (gtirb.Symbol(name="nopayload0", module=m), None)
    sizes = {}
    for bi, off, u in sym_exprs:
        attrs = set()
        bi.symbolic_expressions[off] = gtirb.SymAddrConst(u.addend, out.symbols[u.sym], attrs)
        sizes[gtirb.Offset(bi, off)] = u.field[1]
    m.aux_data["symbolicExpressionSizes"] = gtirb.AuxData(sizes, "mapping<Offset,uint64_t>")
    if notes["comments"]:
        m.aux_data["comments"] = gtirb.AuxData(notes["comments"], "mapping<Offset,string>")
    if notes["padding"]:
        m.aux_data["padding"] = gtirb.AuxData(notes["padding"], "mapping<Offset,uint64_t>")
    if c.entry_block is not None:
        m.entry_point = out.blocks[c.entry_block]
    # functions
    out.func_uuids = {}
    if c.funcs:
        fb, fe, fn = {}, {}, {}
        for name, idxs in c.funcs.items():
            u = _uuid.uuid4()
            out.func_uuids[name] = u
            fb[u] = {out.blocks[g] for g in idxs}
            fe[u] = {out.blocks[g] for g in c.entries[name]}
            fn[u] = out.symbols[c.fname(name)]
        m.aux_data["functionBlocks"] = gtirb.AuxData(fb, "mapping<UUID,set<UUID>>")
        m.aux_data["functionEntries"] = gtirb.AuxData(fe, "mapping<UUID,set<UUID>>")
        m.aux_data["functionNames"] = gtirb.AuxData(fn, "mapping<UUID,UUID>")
    if c.cfi:
        from gtirb_rewriting._auxdata import NULL_UUID

        table = {}
        for (g, i), ds in c.cfi.items():
            b = c.blocks[g]
            disp = b.uoffs[i] if i < len(b.units) else b.size
            table[gtirb.Offset(out.blocks[g], disp)] = [
                (n_, list(a_), (out.symbols[s_] if s_ else NULL_UUID)) for (n_, a_, s_) in ds]
        m.aux_data["cfiDirectives"] = gtirb.AuxData(
            table, "mapping<Offset,sequence<tuple<string,sequence<int64_t>,UUID>>>")
    _derive_cfg(out)
    if c.spec.get("aux"):
        _extra_aux(out, c.spec["aux"])
    return out


def _extra_aux(out, aux):
    """Aux tables that mention generated nodes (C05 closure checks)."""
    import gtirb

    c, m = out.case, out.module
    A = gtirb.AuxData
    code = [g for g in sorted(out.blocks) if c.blocks[g].code]
    data = [g for g in sorted(out.blocks) if not c.blocks[g].code]
    k = aux.get("seed", 0)

    def pick(lst, n):
        return [lst[(k + 3 * j) % len(lst)] for j in range(min(n, len(lst)))] if lst else []

    if aux.get("blocks"):
        m.aux_data["SCCs"] = A({out.blocks[g]: g for g in code}, "mapping<UUID,int64_t>")
        m.aux_data["profile"] = A({out.blocks[g]: 7 + g for g in pick(code, 3)}, "mapping<UUID,uint64_t>")
        if data:
            m.aux_data["encodings"] = A({out.blocks[g]: "string" for g in pick(data, 2)}, "mapping<UUID,string>")
            m.aux_data["types"] = A({out.blocks[g]: "uint8_t" for g in pick(data, 2)}, "mapping<UUID,string>")
    if aux.get("align") and c.isa in ("x64", "ia32"):
        # alignment entries that hold in the input (largest power of two <= 16 dividing the block's address);
        # only where a nop is one byte: with 4-byte nops a gap after code that is not a multiple of four is a
        # documented PaddingError, and the listings here do not keep code 4-aligned
        al = {}
        for g in pick(sorted(out.blocks), 3):
            a = out.blocks[g].address
            n = 16
            while n > 1 and a % n:
                n //= 2
            if n > 1:
                al[out.blocks[g]] = n
        if al:
            m.aux_data["alignment"] = A(al, "mapping<UUID,uint64_t>")
    if aux.get("special") and code:
        if c.fmt == "elf":
            m.aux_data["elfDynamicInit"] = A(out.blocks[pick(code, 1)[0]], "UUID")
            m.aux_data["elfDynamicFini"] = A(out.blocks[code[(k + 1) % len(code)]], "UUID")
        else:
            m.aux_data["peSafeExceptionHandlers"] = A({out.blocks[g] for g in pick(code, 2)}, "set<UUID>")
    if aux.get("symbols"):
        labels = [out.symbols[n] for n in sorted(c.label_block)]
        if c.fmt == "elf":
            m.aux_data["elfSymbolInfo"] = A(
                {s: (0, "FUNC" if s.name.startswith("f") else "NOTYPE", "GLOBAL", "DEFAULT", 0) for s in labels},
                "mapping<UUID,tuple<uint64_t,string,string,string,uint64_t>>")
        else:
            m.aux_data["peExportedSymbols"] = A(labels[:2], "sequence<UUID>")
        if len(labels) >= 1:
            m.aux_data["symbolForwarding"] = A({out.symbols["ext1"]: labels[k % len(labels)]}, "mapping<UUID,UUID>")
    m.aux_data["sectionProperties"] = A({sec: (1, 6) for sec, _bi in out.sections}, "mapping<UUID,tuple<uint64_t,uint64_t>>")


def _next_code_block(c: Case, g: int) -> Optional[int]:
    """the block physically following g in its section, if it is code"""
    b = c.blocks[g]
    idxs = c.sections[b.sec][1]
    k = idxs.index(g)
    if k + 1 < len(idxs) and c.blocks[idxs[k + 1]].code:
        return idxs[k + 1]
    return None


def _derive_cfg(out: Built):
    """Input CFG by the rules of the listing (DESIGN 1.3)."""
    import gtirb

    c = out.case
    ir, m = out.ir, out.module
    E, L, T = gtirb.Edge, gtirb.Edge.Label, gtirb.Edge.Type

    def target_node(sym):
        if sym in c.externs:
            return out.proxies[sym]
        g, _ = c.label_block[sym]
        return out.blocks[g]

    edges = []
    call_sites = []  # (callee block gidx | None, return-site gidx | None)
    for b in c.blocks:
        if not b.code:
            continue
        src = out.blocks[b.gidx]
        last = b.units[-1]
        nxt = _next_code_block(c, b.gidx)
        k = last.kind
        if k in I.FALLS and nxt is not None:
            edges.append(E(src, out.blocks[nxt], L(T.Fallthrough)))
        if k == "jmp":
            edges.append(E(src, target_node(last.sym), L(T.Branch, False, True)))
        elif k == "jcc":
            edges.append(E(src, target_node(last.sym), L(T.Branch, True, True)))
        elif k == "call":
            edges.append(E(src, target_node(last.sym), L(T.Call, False, True)))
            if last.sym not in c.externs:
                call_sites.append((c.label_block[last.sym][0], nxt))
        elif k == "ijmp":
            edges.append(E(src, gtirb.ProxyBlock(module=m), L(T.Branch, False, False)))
        elif k == "icall":
            edges.append(E(src, gtirb.ProxyBlock(module=m), L(T.Call, False, False)))
    for b in c.blocks:
        if b.code and b.units[-1].kind == "ret":
            src = out.blocks[b.gidx]
            sites = set()
            if b.func is not None:
                for callee, site in call_sites:
                    if site is not None and c.blocks[callee].func == b.func:
                        sites.add(site)
            if sites:
                for s in sorted(sites):
                    edges.append(E(src, out.blocks[s], L(T.Return)))
            else:
                edges.append(E(src, gtirb.ProxyBlock(module=m), L(T.Return)))
    # C11 only ("cfgnoise"): determinism is promised for every module, also for one whose return edges are not
    # the ones the listing implies - returning blocks of one function with different return targets, a return
    # edge missing, an extra one
    for n in (c.spec.get("cfgnoise") or []):
        if not isinstance(n, int) or n < 0:
            continue
        rets = [i for i, e in enumerate(edges) if e.label.type == T.Return]
        srcs = [b.gidx for b in c.blocks if b.code and b.units[-1].kind == "ret"]
        code = [b.gidx for b in c.blocks if b.code]
        if n % 3 == 0:
            if rets:
                del edges[rets[(n // 3) % len(rets)]]
        elif n % 3 == 1:
            if srcs and code:
                e = E(out.blocks[srcs[(n // 3) % len(srcs)]], out.blocks[code[(n // 7) % len(code)]], L(T.Return))
                if e not in edges:
                    edges.append(e)
        else:
            # the returning blocks of one function get different return sites
            for f, idxs in sorted(c.funcs.items()):
                rb = [g for g in idxs if g in srcs]
                if len(rb) >= 2:
                    for k, g in enumerate(rb):
                        e = E(out.blocks[g], out.blocks[code[(n // 3 + k) % len(code)]], L(T.Return))
                        if e not in edges:
                            edges.append(e)
    # the CFG is a set: the order in which its edges were added (which is the order the library's loops over
    # out_edges / in_edges see them) carries no meaning, so it is part of the generated input ("eorder": 0 keeps
    # the derivation order, k > 0 is a permutation drawn from a fixed congruential sequence seeded with k)
    k = c.spec.get("eorder") or 0
    if isinstance(k, int) and k > 0 and len(edges) > 1:
        x = k
        for i in range(len(edges) - 1, 0, -1):
            x = (x * 6364136223846793005 + 1442695040888963407) % (1 << 64)
            j = (x >> 33) % (i + 1)
            edges[i], edges[j] = edges[j], edges[i]
    for e in edges:
        ir.cfg.add(e)


# ---------------------------------------------------------------------------
# Registering the edits with the library
# ---------------------------------------------------------------------------
CONS_REGS = {
    "x64": ["rax", "rcx", "rdx", "rbx", "rsi", "rdi", "r8", "r9", "r10", "r11", "r12"],
    "ia32": ["eax", "ecx", "edx", "ebx", "esi", "edi"],
    "arm64": ["x0", "x1", "x2", "x3", "x9", "x10", "x19", "x20"],
}


def make_patch(case: Case, ed: Edit, record=None):
    from gtirb_rewriting import Constraints, Patch

    _items, text = case.patch_units(ed)
    # optional Constraints (spec["cons"], used where only run-to-run equality
    # is judged: the prologue/epilogue bytes are not part of the listing model)
    cons = Constraints()
    cl = case.spec.get("cons")
    if cl and case.blocks[ed.b].code and case.isa in CONS_REGS:
        c = cl[ed.reg % len(cl)]
        regs = CONS_REGS[case.isa]
        cons = Constraints(
            clobbers_registers={regs[k % len(regs)] for k in c.get("clob", [])},
            clobbers_flags=bool(c.get("flags")),
            align_stack=bool(c.get("align")),
            preserve_caller_saved_registers=bool(c.get("caller")),
            scratch_registers=int(c.get("scratch", 0)) % 3,
        )

    class SpecPatch(Patch):
        def __init__(self):
            super().__init__(cons)

        def get_asm(self, ctx):
            if record is not None:
                record.append((ed.reg, ctx))
            return text

        def __str__(self):
            return f"patch#{ed.reg}"

    return SpecPatch()


def functions_of(module):
    import gtirb_functions

    if "functionEntries" not in module.aux_data:
        return []
    return gtirb_functions.Function.build_functions(module)


def register(case: Case, built: Built, ctx, record=None, edits=None, order=None):
    from gtirb_rewriting import AllBlocksScope, BlockPosition, SingleBlockScope

    done_scopes = set()
    seq = order if order is not None else sorted(edits if edits is not None else case.edits, key=lambda e: e.reg)
    for ed in seq:
        if ed.scope is not None:
            if ed.reg in done_scopes:
                continue
            done_scopes.add(ed.reg)
            pos = BlockPosition.ENTRY if ed.scope[1] == "entry" else BlockPosition.EXIT
            if ed.scope[0] == "all":
                ctx.register_insert(AllBlocksScope(pos), make_patch(case, ed, record))
            else:
                ctx.register_insert(SingleBlockScope(built.blocks[ed.scope[2]], pos), make_patch(case, ed, record))
            continue
        blk = built.blocks[ed.b]
        off = case.byte_off(ed.b, ed.i)
        ln = case.byte_off(ed.b, ed.i + ed.n) - off
        if ed.op == "insert":
            ctx.insert_at(blk, off, make_patch(case, ed, record))
        elif ed.op == "replace":
            ctx.replace_at(blk, off, ln, make_patch(case, ed, record))
        else:
            ctx.delete_at(blk, off, ln, retarget_to_proxy=ed.proxy)


def rewrite(case: Case, built: Built, record=None, order=None, pre_apply=None):
    import gtirb_rewriting

    ctx = gtirb_rewriting.RewritingContext(built.module, functions_of(built.module))
    register(case, built, ctx, record, order=order)
    if pre_apply is not None:
        pre_apply(ctx, built)
    ctx.apply()


# ---------------------------------------------------------------------------
# Observers
# ---------------------------------------------------------------------------
class Observed:
    """Section-relative view of a module after rewriting."""

    def __init__(self, built: Built, skip_intervals=()):
        import gtirb

        self.built = built
        self.skipped = set(skip_intervals)
        m = built.module
        self.sec_bytes = []
        self.base = {}      # byte interval -> section-relative base
        self.sec_of = {}    # byte interval -> section index
        self.problems = []
        self.reordered = []
        names = [n for n, _ in built.case.sections]
        self.extra_sections = []
        by_name = {s.name: s for s in m.sections}
        for si, name in enumerate(names):
            sec = by_name.get(name)
            if sec is None:
                self.sec_bytes.append(b"")
                self.problems.append(f"section {name} disappeared")
                continue
            data = bytearray()
            orig = {id(bi): k for k, bi in enumerate(built.intervals[si])} if getattr(built, "intervals", None) else {}
            by_addr = sorted(sec.byte_intervals, key=lambda bi: (bi.address if bi.address is not None else 1 << 62))
            # the listing order of the input's own intervals is their original
            # order; whether the final layout kept it is reported separately
            ivs = sorted(by_addr, key=lambda bi: orig.get(id(bi), len(orig)))
            known = [bi for bi in by_addr if id(bi) in orig and bi not in self.skipped]
            if [orig[id(bi)] for bi in known] != sorted(orig[id(bi)] for bi in known):
                self.reordered.append((name, [orig[id(bi)] for bi in known]))
                # finding C01-layout-reorders-intervals is C01's to report;
                # every other clause is judged on the listing order, so put
                # the intervals back (addresses only)
                cur = min(bi.address for bi in by_addr if bi.address is not None)
                for bi in ivs:
                    bi.address = cur
                    cur += bi.size
                by_addr = list(ivs)
            prev_end = None
            for bi in by_addr:
                if bi.address is None:
                    self.problems.append(f"interval without address in {name}")
                    continue
                if prev_end is not None and bi.address < prev_end:
                    self.problems.append(f"overlapping intervals in {name}")
                prev_end = bi.address + bi.size
            for bi in ivs:
                if bi in self.skipped:
                    continue
                self.base[bi] = len(data)
                self.sec_of[bi] = si
                data += bytes(bi.contents)
                if bi.size != len(bi.contents):
                    data += b"\x00" * (bi.size - len(bi.contents))
            self.sec_bytes.append(bytes(data))
        for s in m.sections:
            if s.name not in names:
                self.extra_sections.append(s)

    def block_pos(self, blk):
        bi = blk.byte_interval
        if bi is None or bi not in self.base:
            return None
        return (self.sec_of[bi], self.base[bi] + blk.offset)

    def symbol_pos(self, sym):
        import gtirb

        r = sym.referent
        if r is None:
            return ("none",)
        if isinstance(r, gtirb.ProxyBlock):
            return ("proxy", r)
        p = self.block_pos(r)
        if p is None:
            return ("dead", r)
        return ("pos", p[0], p[1] + (r.size if sym.at_end else 0))

    def code_blocks(self, si):
        import gtirb

        out = []
        for bi, s in self.sec_of.items():
            if s != si:
                continue
            for b in bi.blocks:
                out.append((self.base[bi] + b.offset, b.size, b))
        out.sort(key=lambda t: (t[0], t[1]))
        return out


# ---------------------------------------------------------------------------
# One-stop execution used by the rewrite properties
# ---------------------------------------------------------------------------
class Run:
    pass


def execute(spec, *, allow_after_full_delete=False, record=None, pre_apply=None, skip_intervals=None) -> Run:
    r = Run()
    r.case = Case(spec, allow_after_full_delete=allow_after_full_delete)
    r.exp = Expected(r.case)
    r.excluded = out_of_domain(r.case, r.exp)
    r.error = None
    r.obs = None
    if r.excluded:
        return r
    r.built = build(r.case)
    try:
        rewrite(r.case, r.built, record, pre_apply=pre_apply)
    except Exception as e:  # judged by the caller
        r.error = e
    r.obs = Observed(r.built, skip_intervals() if skip_intervals else ()) if r.error is None else None
    return r


def describe(case: Case):
    """Human-readable rendering of a case (evidence samples)."""
    out = {"isa": case.isa, "fmt": case.fmt, "listing": [], "edits": []}
    for name, idxs in case.sections:
        out["listing"].append(f"  .section {name}")
        for g in idxs:
            b = case.blocks[g]
            hdr = f"# block {g} ({'code' if b.code else 'data'}{', func ' + b.func if b.func else ''}{', starts a new byte interval' if b.newiv else ''})"
            out["listing"].append(hdr)
            for n in b.labels:
                out["listing"].append(f"{n}:")
            for u in b.units:
                if b.code:
                    tn = next((t.name for t in I.TABLES[case.isa] if t.kind == u.kind and len(t.bytes) == len(u.data)
                               and (t.symfield is None) == (u.sym is None)), u.kind)
                    out["listing"].append(f"    {tn} {u.sym or ''} ; {u.data.hex()}")
                else:
                    out["listing"].append(f"    .byte {u.data.hex()} {u.sym or ''}")
            for n in b.end_labels:
                out["listing"].append(f"{n}: # (end label)")
    for ed in case.edits:
        d = f"#{ed.reg} {ed.op} block {ed.b} unit {ed.i}" + (f" n={ed.n}" if ed.op != "insert" else "")
        if ed.scope:
            d += f" via register_insert({ed.scope[0]}, {ed.scope[1]})"
        if ed.op == "delete" and ed.proxy:
            d += " retarget_to_proxy"
        if ed.patch:
            _, text = case.patch_units(ed)
            d += " patch: " + text.strip().replace("\n", " ; ")
        out["edits"].append(d)
    out["dropped"] = case.dropped
    return out


def call_at_section_end(case: Case) -> bool:
    """Signature of finding C01-call-at-section-end: when it is inserted, a
    patch leaves a position that is not followed by code (end of section, or
    data follows) but must stay addressable as a code position: the return
    site of a patch-inserted direct call to a module function, or a patch
    label that a patch branch/call targets.  The zero-sized continuation block
    cannot be removed and _cleanup_modified_blocks asserts.  "When it is
    inserted": patches applied later at the same location are ignored."""
    exp = Expected(case)
    anchor = {}
    anchor_end = {}
    for ed in case.edits:
        if ed.op != "delete":
            anchor.setdefault(ed.reg, {})[ed.b] = (ed.b, ed.i)
            anchor_end.setdefault(ed.reg, {})[ed.b] = (ed.b, ed.i + ed.n, ed.n)

    def later_same_anchor(u, v):
        """is v a unit of a patch applied after u's patch at the same location?"""
        if not (v.origin and v.origin[0] == "patch" and u.origin[0] == "patch"):
            return False
        au = anchor.get(u.origin[1], {})
        av = anchor.get(v.origin[1], {})
        common = set(au.values()) & set(av.values())
        if common and v.origin[1] > u.origin[1]:
            return True
        # a replacement's patch is followed by whatever is inserted where the replaced range ended: those
        # insertions are applied later whatever the registration order
        for (b, end, n) in anchor_end.get(u.origin[1], {}).values():
            if n > 0 and (b, end) in set(av.values()):
                return True
        return False

    for si, insns in enumerate(exp.insns):
        for k, e in enumerate(insns):
            u = e.unit
            if not (u.origin and u.origin[0] == "patch"):
                continue

            def nocode_after(pos_index):
                j = pos_index
                while j < len(insns) and later_same_anchor(u, insns[j].unit):
                    j += 1
                if j >= len(insns) or insns[j].unit.kind == "data":
                    return True
                # an instruction that a patch put into a data block is not code that follows
                o = insns[j].unit.origin
                if o and o[0] == "patch":
                    host = next((ed.b for ed in case.edits if ed.reg == o[1]), None)
                    if host is not None and not case.blocks[host].code:
                        return True
                return False

            if u.kind == "call" and u.sym not in case.externs and nocode_after(k + 1):
                return True
            if u.kind in ("jmp", "jcc", "call") and u.sym in exp.patch_labels:
                lsi, lpos, _t = exp.patch_labels[u.sym]
                if lsi == si:
                    j = next((x for x, ee in enumerate(insns) if ee.pos >= lpos), len(insns))
                    if nocode_after(j):
                        return True
    return False


def out_of_domain(case: Case, exp: "Expected") -> Optional[str]:
    """Cases outside every rewrite property's domain (returned as the name of
    the excluded class): a patch branch/call whose target module label ends up
    at a position that is not followed by code (control flow into data / off
    the end of a section cannot be represented: the assembler refuses it)."""
    code_pos = [set() for _ in exp.insns]
    for si, insns in enumerate(exp.insns):
        for e in insns:
            if e.unit.kind != "data":
                code_pos[si].add(e.pos)
    for si, insns in enumerate(exp.insns):
        for e in insns:
            u = e.unit
            if u.origin and u.origin[0] == "patch" and u.kind in ("jmp", "jcc", "call") and u.sym in exp.labels:
                tgt = exp.labels[u.sym]
                if tgt[0] == "pos" and tgt[2] not in code_pos[tgt[1]]:
                    return "patch-branch-to-noncode-position"
    return None


def label_on_proxy_deleted_neighbour(case: Case) -> bool:
    """Signature of finding C02-label-follows-proxy-deleted-neighbour: some
    label that does not belong to a block deleted with retarget_to_proxy sits
    at the position where that block started."""
    exp = Expected(case)
    starts = {exp.block_start[g] for g in exp.proxy_blocks}
    for name, want in exp.labels.items():
        if want[0] == "pos" and (want[1], want[2]) in starts:
            return True
    for name, (si, pos, _t) in exp.patch_labels.items():
        if (si, pos) in starts:
            return True
    return False


def trailing_label_then_insert(case: Case, cfi=False) -> bool:
    """Signature of finding C02-trailing-patch-label-at-block-end: a patch that
    ends in a label is inserted at the very end of a block and a later
    registered patch is inserted at the same place (the label becomes an
    end-of-block symbol and the second patch is placed in front of it)."""
    by = {}
    for ed in case.edits:
        if ed.op in ("insert", "replace"):
            by.setdefault((ed.b, ed.i + (ed.n if ed.op == "replace" else 0)), []).append(ed)
    for (b, i), eds in by.items():
        if i != len(case.blocks[b].units) or len(eds) < 2:
            continue
        eds.sort(key=lambda e: (e.i, e.reg))  # application order
        for ed in eds[:-1]:
            items, _ = case.patch_units(ed)
            if cfi and items and isinstance(items[-1], Cfi):
                return True   # a trailing CFI directive behaves like a trailing label
            items = [x for x in items if not isinstance(x, Cfi)]
            if items and isinstance(items[-1], Label):
                return True
    return False


def multi_interval_growth(case: Case) -> bool:
    """Signature of finding C01-layout-reorders-intervals: some section has
    several byte intervals and the rewrite adds bytes somewhere (only then can
    an interval grow into its successor and force the closing re-layout)."""
    if not any(b.newiv for b in case.blocks):
        return False
    return any(ed.op in ("insert", "replace") for ed in case.edits)


def pack_layout(built):
    """Give the byte intervals of every multi-interval section contiguous
    addresses in listing order (the input's own intervals in their original
    order, new ones after them by address).  Used where two runs are compared
    whose closing re-layouts may differ (finding C01-layout-reorders-intervals
    and gtirb_layout's default alignment gaps)."""
    for si, ivs0 in enumerate(built.intervals):
        sec = built.sections[si][0]
        live = [bi for bi in sec.byte_intervals]
        if len(live) < 2 or any(bi.address is None for bi in live):
            continue
        orig = {id(bi): k for k, bi in enumerate(ivs0)}
        live.sort(key=lambda bi: bi.address)
        live.sort(key=lambda bi: orig.get(id(bi), len(orig)))
        cur = min(bi.address for bi in live)
        for bi in live:
            bi.address = cur
            cur += bi.size
