"""Child process for C11: rewrite every spec of a file and print digests.
Run with a chosen PYTHONHASHSEED: python -m vp.c11child <specs.json>"""
import json
import sys


def main():
    from vp import core

    core.setup_repo_path()
    from vp.props import c11

    specs = json.load(open(sys.argv[1]))
    out = []
    for spec in specs:
        out.append(c11.digest_of(spec, "base"))
    json.dump(out, sys.stdout)


if __name__ == "__main__":
    main()
