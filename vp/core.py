"""
Common machinery: seeding, sharding over worker processes, collect-then-bucket
failure handling, generic spec shrinking, known findings, evidence writing and
the VIOLATION / KNOWN-FINDING output contract.

Every property module (vp/props/cXX.py) exposes

    ID          "C14"
    RULE        text: how cases are generated and what makes one non-trivial
    ASSUMPTIONS list of strings
    TECHNIQUE   text
    def budget(tier) -> int                 number of generated cases (total)
    def strategy(tier) -> SearchStrategy    draws a *spec* (JSON-able value)
    def evaluate(spec) -> Outcome           pure function of the spec
    def render(spec) -> JSON-able           how a sample is shown in evidence
 optional:
    def extra(tier, seed, jobs) -> list[dict]   exhaustive / enumerated parts,
                                                each a Recorder.to_dict()
    def in_known_class(finding_id, spec, failure) -> bool

JSON convention for specs: lists are variable-length sequences, records are
dicts.  The generic shrinker relies on it.
"""

from __future__ import annotations

import hashlib
import importlib
import json
import multiprocessing
import os
import sys
import time
import traceback
from dataclasses import dataclass, field
from typing import Any, Callable, Dict, List, Optional

ROOT = os.path.dirname(os.path.dirname(os.path.abspath(__file__)))
OUT = os.environ.get("VERIF_OUT", ROOT)  # replays/evidence land here (scratch dir for mutant runs)
REPO_SRC = os.environ.get("VERIF_REPO_SRC", "/repo/src")
HOOK_GUARD = "GTIRB_REWRITING_VERIF"


class HarnessError(Exception):
    """Something is wrong with the machinery, not with the code under test."""


class BadSpec(Exception):
    """The spec is not well-formed (only reachable through shrinking/replay)."""


def setup_repo_path() -> None:
    """Make sure gtirb_rewriting is imported from /repo's working tree."""
    os.environ.setdefault(HOOK_GUARD, "1")
    import logging

    logging.disable(logging.CRITICAL)
    if REPO_SRC not in sys.path[:1]:
        sys.path.insert(0, REPO_SRC)
    import gtirb_rewriting

    got = os.path.realpath(gtirb_rewriting.__file__)
    want = os.path.realpath(REPO_SRC)
    if not got.startswith(want + os.sep):
        raise HarnessError(
            f"gtirb_rewriting imported from {got}, expected under {want}"
        )


def spec_hash(spec: Any) -> str:
    data = json.dumps(spec, sort_keys=True, separators=(",", ":"))
    return hashlib.blake2b(data.encode(), digest_size=8).hexdigest()


@dataclass
class Failure:
    clause: str  # which clause of the property ("C14.roundtrip")
    kind: str  # mismatch kind or exception type + frame
    detail: str = ""  # human-readable detail (not part of the bucket key)
    sig: str = ""  # structural signature refining the bucket
    data: Any = None  # structured details for finding predicates (not in the key)

    @property
    def key(self) -> str:
        return f"{self.clause}|{self.kind}|{self.sig}"

    def to_dict(self):
        return {
            "clause": self.clause,
            "kind": self.kind,
            "detail": self.detail,
            "sig": self.sig,
            "data": self.data,
        }


@dataclass
class Outcome:
    failures: List[Failure] = field(default_factory=list)
    nontrivial: bool = False
    classes: List[str] = field(default_factory=list)
    excluded: Optional[str] = None  # case skipped: name of the excluded class

    def fail(self, clause, kind, detail="", sig="", data=None):
        self.failures.append(Failure(clause, kind, str(detail)[:2000], sig, data))


def exc_kind(exc: BaseException) -> str:
    """Exception type + innermost gtirb_rewriting frame, for bucketing."""
    tb = traceback.extract_tb(exc.__traceback__)
    where = ""
    for fr in reversed(tb):
        if "gtirb_rewriting" in fr.filename and "/vp/" not in fr.filename:
            where = f"{os.path.basename(fr.filename)}:{fr.name}"
            break
    return f"{type(exc).__name__}@{where}"


class Recorder:
    MAX_SAMPLES = 5

    def __init__(self):
        self.evaluations = 0
        self.nontrivial = set()
        self.classes: Dict[str, int] = {}
        self.excluded: Dict[str, int] = {}
        self.samples: List[Any] = []
        self.buckets: Dict[str, dict] = {}
        self.harness_errors: List[str] = []
        self.exhaustive_parts: List[str] = []
        self.notes: Dict[str, Any] = {}
        self.known_hits: Dict[str, int] = {}
        self._known: Optional[List[dict]] = None

    def _owner(self, mod, spec, f) -> Optional[str]:
        """the listed finding this single failure belongs to (judged per failure, not per bucket: a bucket key is
        shared by every root cause that fails the same clause in the same way)"""
        if self._known is None:
            self._known = load_known(getattr(mod, "ID", ""))
        if not self._known:
            return None
        fd = f.to_dict()
        for fnd in self._known:
            if attribute(mod, fnd, spec, fd):
                return fnd["id"]
        return None

    def run(self, mod, spec) -> Optional[Outcome]:
        try:
            out = mod.evaluate(spec)
        except BadSpec:
            return None
        except HarnessError as e:
            self.harness_errors.append(f"{e}")
            return None
        except Exception:
            self.harness_errors.append(
                "evaluate crashed: "
                + traceback.format_exc()[-3000:]
                + "\nspec="
                + json.dumps(spec)[:3000]
            )
            return None
        self.record(mod, spec, out)
        return out

    def record(self, mod, spec, out: Outcome):
        if out.excluded:
            self.excluded[out.excluded] = self.excluded.get(out.excluded, 0) + 1
            return
        self.evaluations += 1
        for _tag, deep in getattr(out, "extra_runs", ()):
            self.notes["fault_runs"] = self.notes.get("fault_runs", 0) + 1
            if deep:
                self.notes["fault_runs_after_first_patch"] = self.notes.get("fault_runs_after_first_patch", 0) + 1
        for c in out.classes:
            self.classes[c] = self.classes.get(c, 0) + 1
        if out.nontrivial:
            h = spec_hash(spec)
            if h not in self.nontrivial:
                self.nontrivial.add(h)
                if len(self.samples) < self.MAX_SAMPLES:
                    try:
                        self.samples.append(mod.render(spec))
                    except Exception:
                        self.samples.append(spec)
        for f in out.failures:
            owner = self._owner(mod, spec, f)
            if owner is not None:
                self.known_hits[owner] = self.known_hits.get(owner, 0) + 1
                continue
            size = len(json.dumps(spec))
            b = self.buckets.get(f.key)
            if b is None:
                self.buckets[f.key] = {
                    "failure": f.to_dict(),
                    "spec": spec,
                    "size": size,
                    "count": 1,
                }
            else:
                b["count"] += 1
                if size < b["size"]:
                    b.update(failure=f.to_dict(), spec=spec, size=size)

    def to_dict(self):
        return {
            "evaluations": self.evaluations,
            "nontrivial": sorted(self.nontrivial),
            "classes": self.classes,
            "excluded": self.excluded,
            "samples": self.samples,
            "buckets": self.buckets,
            "harness_errors": self.harness_errors[:5],
            "exhaustive_parts": self.exhaustive_parts,
            "notes": self.notes,
            "known_hits": self.known_hits,
        }


def merge(dicts: List[dict]) -> dict:
    out = {
        "evaluations": 0,
        "nontrivial": set(),
        "classes": {},
        "excluded": {},
        "samples": [],
        "buckets": {},
        "harness_errors": [],
        "exhaustive_parts": [],
        "notes": {},
        "known_hits": {},
    }
    for d in dicts:
        for k, v in d.get("known_hits", {}).items():
            out["known_hits"][k] = out["known_hits"].get(k, 0) + v
        out["evaluations"] += d["evaluations"]
        out["nontrivial"].update(d["nontrivial"])
        for k, v in d["classes"].items():
            out["classes"][k] = out["classes"].get(k, 0) + v
        for k, v in d["excluded"].items():
            out["excluded"][k] = out["excluded"].get(k, 0) + v
        for s in d["samples"]:
            if len(out["samples"]) < Recorder.MAX_SAMPLES:
                out["samples"].append(s)
        for k, b in d["buckets"].items():
            cur = out["buckets"].get(k)
            if cur is None:
                out["buckets"][k] = dict(b)
            else:
                cur["count"] += b["count"]
                if b["size"] < cur["size"]:
                    cur.update(
                        failure=b["failure"], spec=b["spec"], size=b["size"]
                    )
        out["harness_errors"].extend(d["harness_errors"])
        out["exhaustive_parts"].extend(d.get("exhaustive_parts", []))
        for k, v in d.get("notes", {}).items():
            if isinstance(v, (int, float)) and isinstance(
                out["notes"].get(k, 0), (int, float)
            ):
                out["notes"][k] = out["notes"].get(k, 0) + v
            else:
                out["notes"][k] = v
    return out


# --------------------------------------------------------------------------
# Hypothesis-driven worker
# --------------------------------------------------------------------------
def hypothesis_settings(n_examples: int):
    from hypothesis import HealthCheck, Phase, settings

    return settings(
        max_examples=n_examples,
        database=None,
        deadline=None,
        derandomize=False,
        report_multiple_bugs=False,
        phases=[Phase.generate],
        suppress_health_check=list(HealthCheck),
    )


def _worker(args):
    prop_id, tier, shard_seed, n_examples = args
    try:
        setup_repo_path()
        import hypothesis
        from hypothesis import given

        mod = importlib.import_module(f"vp.props.{prop_id.lower()}")
        rec = Recorder()
        if hasattr(mod, "worker"):
            # property drives Hypothesis itself (stateful machines)
            mod.worker(rec, tier, shard_seed, n_examples)
            return rec.to_dict()

        @hypothesis.seed(shard_seed)
        @hypothesis_settings(n_examples)
        @given(mod.strategy(tier))
        def test(spec):
            rec.run(mod, spec)

        test()
        return rec.to_dict()
    except BaseException:
        r = Recorder()
        r.harness_errors.append("worker crashed: " + traceback.format_exc())
        return r.to_dict()


def run_workers(prop_id: str, tier: str, seed: int, jobs: int) -> List[dict]:
    mod = importlib.import_module(f"vp.props.{prop_id.lower()}")
    total = mod.budget(tier)
    # (VERIF_BUDGET_SCALE: smoke runs of a tier with a fraction of its examples)
    scale = float(os.environ.get("VERIF_BUDGET_SCALE", "1"))
    if scale != 1:
        total = max(16, int(total * scale))
    if total <= 0:
        return []
    jobs = max(1, min(jobs, total))
    per = (total + jobs - 1) // jobs
    tasks = [(prop_id, tier, seed * 1009 + i, per) for i in range(jobs)]
    if jobs == 1:
        return [_worker(tasks[0])]
    ctx = multiprocessing.get_context("fork")
    with ctx.Pool(jobs) as pool:
        return pool.map(_worker, tasks, chunksize=1)


def pool_map(fn: Callable, items: list, jobs: int) -> list:
    """Helper for exhaustive grids: map fn over items on a fork pool."""
    if jobs <= 1 or len(items) <= 1:
        return [fn(i) for i in items]
    ctx = multiprocessing.get_context("fork")
    with ctx.Pool(min(jobs, len(items))) as pool:
        return pool.map(fn, items, chunksize=1)


# --------------------------------------------------------------------------
# Generic structural shrinker over JSON specs
# --------------------------------------------------------------------------
def _candidates(x):
    """Yield simpler variants of a JSON value (structure-preserving)."""
    if isinstance(x, list):
        n = len(x)
        # drop chunks, big first
        size = n // 2
        while size >= 1:
            for i in range(0, n - size + 1, max(1, size)):
                yield x[:i] + x[i + size :]
            size //= 2
        for i, e in enumerate(x):
            for c in _candidates(e):
                yield x[:i] + [c] + x[i + 1 :]
    elif isinstance(x, dict):
        for k in sorted(x):
            for c in _candidates(x[k]):
                d = dict(x)
                d[k] = c
                yield d
    elif isinstance(x, bool):
        if x:
            yield False
    elif isinstance(x, int):
        if x != 0:
            yield 0
            if abs(x) > 1:
                yield x // 2 if x > 0 else -((-x) // 2)
            yield x - 1 if x > 0 else x + 1
    elif isinstance(x, str):
        return


def shrink(spec, still_fails: Callable[[Any], bool], max_steps: int):
    steps = 0
    improved = True
    while improved and steps < max_steps:
        improved = False
        for cand in _candidates(spec):
            steps += 1
            if steps > max_steps:
                break
            try:
                ok = still_fails(cand)
            except Exception:
                ok = False
            if ok:
                spec = cand
                improved = True
                break
    return spec


def _shrink_bucket(args):
    prop_id, key, spec, max_steps = args
    setup_repo_path()
    mod = importlib.import_module(f"vp.props.{prop_id.lower()}")

    def still_fails(cand):
        try:
            out = mod.evaluate(cand)
        except BadSpec:
            return False
        if out.excluded:
            return False
        return any(f.key == key for f in out.failures)

    try:
        return shrink(spec, still_fails, max_steps)
    except Exception:
        return spec


# --------------------------------------------------------------------------
# Known findings
# --------------------------------------------------------------------------
def load_known(prop_id: str) -> List[dict]:
    path = os.path.join(ROOT, "known_findings.json")
    if not os.path.exists(path):
        return []
    with open(path) as f:
        data = json.load(f)
    return [
        e
        for e in data.get("open", [])
        if e.get("property") == prop_id
    ]


def attribute(mod, finding: dict, spec, failure: dict) -> bool:
    """Does this failure belong to the listed finding?"""
    if failure["clause"] not in finding.get("clauses", [finding.get("clause")]):
        return False
    kinds = finding.get("kinds")
    if kinds and not any(failure["kind"].startswith(k) for k in kinds):
        return False
    pred = getattr(mod, "in_known_class", None)
    if pred is None:
        return False
    try:
        return bool(pred(finding["id"], spec, failure))
    except Exception:
        return False


# --------------------------------------------------------------------------
# Regression tier: the shrunk inputs that exposed the defects fixed in /repo
# (replays/regress/<prop>-*.json, produced by running the check against the
# revert of each fix) are re-judged on every run, whatever the seed.
# --------------------------------------------------------------------------
def regression_tier(mod, prop_id: str) -> dict:
    import glob

    rec = Recorder()
    files = sorted(glob.glob(os.path.join(ROOT, "replays", "regress", f"{prop_id}-*.json")))
    for path in files:
        try:
            with open(path) as f:
                spec = json.load(f)["spec"]
        except Exception as e:
            rec.harness_errors.append(f"regression replay {path}: {e!r}")
            continue
        rec.run(mod, spec)
    rec.notes["regression_replays"] = len(files)
    if files:
        rec.exhaustive_parts.append(f"regression tier: {len(files)} saved inputs of fixed defects (replays/regress)")
    return rec.to_dict()


# --------------------------------------------------------------------------
# Coverage-guided stage (atheris / libFuzzer), see vp/fuzz.py
# --------------------------------------------------------------------------
FUZZ_DEFAULT = {"quick": 0, "thorough": 8_000}   # libFuzzer -runs per shard


def fuzz_stage(mod, prop_id: str, tier: str, seed: int, jobs: int) -> List[dict]:
    """Run `jobs` libFuzzer shards over the property's own strategy and return
    their recorder dumps.  A shard that cannot start (atheris missing) or does
    not finish is reported in the notes as inconclusive, never as a violation."""
    runs = getattr(mod, "FUZZ", FUZZ_DEFAULT).get(tier, 0)
    if os.environ.get("VERIF_FUZZ_RUNS"):
        runs = int(os.environ["VERIF_FUZZ_RUNS"])
    if runs <= 0 or hasattr(mod, "worker"):
        return []
    import shutil
    import subprocess
    import tempfile

    os.makedirs(OUT, exist_ok=True)
    work = tempfile.mkdtemp(prefix=f".fuzz_{prop_id}_", dir=OUT)
    note = Recorder()
    try:
        procs = []
        env = dict(os.environ, PYTHONHASHSEED="0", PYTHONPATH=ROOT)
        for k in range(jobs):
            out = os.path.join(work, f"shard{k}.json")
            cmd = [sys.executable, "-m", "vp.fuzz", prop_id, "--tier", tier, "--runs", str(runs),
                   "--seed", str(seed * 1009 + k + 1), "--out", out]
            procs.append((out, subprocess.Popen(cmd, cwd=ROOT, env=env, stdout=subprocess.DEVNULL,
                                                stderr=subprocess.PIPE, text=True)))
        parts = []
        finished = 0
        for out, p in procs:
            try:
                _o, err = p.communicate(timeout=6 * 3600)
            except subprocess.TimeoutExpired:
                p.kill()
                err = "timeout"
            if os.path.exists(out):
                with open(out) as f:
                    d = json.load(f)
                # evaluations / classes of the fuzz stage are reported apart
                n = d["notes"].pop("fuzz_executions", 0)
                d["notes"] = {"fuzz_executions": n, "fuzz_evaluations": d["evaluations"]}
                parts.append(d)
                finished += 1 if p.returncode == 0 else 0
            else:
                note.notes["fuzz_unavailable"] = (err or "")[-300:]
        note.notes["fuzz_shards"] = len(procs)
        note.notes["fuzz_shards_finished"] = finished
        note.exhaustive_parts.append(
            f"coverage-guided stage: {len(procs)} libFuzzer shards x -runs={runs} over the same strategy "
            f"(atheris, gtirb_rewriting instrumented)")
        return parts + [note.to_dict()]
    finally:
        shutil.rmtree(work, ignore_errors=True)


# --------------------------------------------------------------------------
# Top-level driver
# --------------------------------------------------------------------------
def run_property(prop_id: str, tier: str, seed: int, jobs: int) -> int:
    t0 = time.time()
    setup_repo_path()
    mod = importlib.import_module(f"vp.props.{prop_id.lower()}")
    if hasattr(mod, "calibrate"):
        mod.calibrate()

    parts = run_workers(prop_id, tier, seed, jobs)
    parts.append(regression_tier(mod, prop_id))
    if hasattr(mod, "extra"):
        parts.extend(mod.extra(tier, seed, jobs))
    parts.extend(fuzz_stage(mod, prop_id, tier, seed, jobs))
    total = merge(parts)

    if total["harness_errors"]:
        print(f"HARNESS-ERROR property={prop_id}")
        for e in total["harness_errors"][:3]:
            print(e)
        return 2

    known = load_known(prop_id)
    exit_code = 0
    violations = 0
    known_hits: Dict[str, int] = {}

    # replay every listed finding once
    for fnd in known:
        rp = os.path.join(ROOT, fnd["replay"])
        try:
            with open(rp) as f:
                rspec = json.load(f)["spec"]
            out = mod.evaluate(rspec)
            hit = [
                f
                for f in out.failures
                if attribute(mod, fnd, rspec, f.to_dict())
            ]
        except Exception as e:  # replay broken: harness problem
            print(f"HARNESS-ERROR property={prop_id} replay {rp}: {e!r}")
            return 2
        if hit:
            print(
                f"KNOWN-FINDING: property={prop_id} {fnd['id']}: "
                f"{fnd['description']}"
            )
            known_hits[fnd["id"]] = 1
        else:
            print(
                f"NOTE: listed finding {fnd['id']} no longer reproduces "
                f"from {fnd['replay']}"
            )

    for k, v in total.get("known_hits", {}).items():
        known_hits[k] = known_hits.get(k, 0) + v
    shrink_steps = getattr(mod, "SHRINK_STEPS", {}).get(tier, 400 if tier == "quick" else 4000)
    todo = []
    for key, b in sorted(total["buckets"].items()):
        owner = None
        for fnd in known:
            if attribute(mod, fnd, b["spec"], b["failure"]):
                owner = fnd
                break
        if owner is not None:
            known_hits[owner["id"]] = known_hits.get(owner["id"], 0) + b["count"]
            continue
        todo.append((prop_id, key, b["spec"], shrink_steps))

    if todo:
        shrunk = pool_map(_shrink_bucket, todo, jobs)
        os.makedirs(os.path.join(OUT, "replays"), exist_ok=True)
        for (pid, key, _orig, _), small in zip(todo, shrunk):
            # a shrunk spec may have drifted into a known class
            b = total["buckets"][key]
            try:
                out = mod.evaluate(small)
                fl = [f for f in out.failures if f.key == key]
                fdict = fl[0].to_dict() if fl else b["failure"]
            except Exception:
                small, fdict = b["spec"], b["failure"]
            owner = None
            for fnd in known:
                if attribute(mod, fnd, small, fdict):
                    owner = fnd
            if owner is not None:
                small, fdict = b["spec"], b["failure"]
            name = f"{prop_id}-{fdict['clause'].split('.')[-1]}-{spec_hash(small)}.json"
            rel = os.path.join("replays", name)
            with open(os.path.join(OUT, rel), "w") as f:
                json.dump(
                    {
                        "property": prop_id,
                        "key": key,
                        "failure": fdict,
                        "count": b["count"],
                        "spec": small,
                    },
                    f,
                    indent=1,
                    sort_keys=True,
                )
            print(f"VIOLATION property={prop_id} replay={rel}")
            print(f"  {fdict['clause']} {fdict['kind']}: {fdict['detail'][:600]}")
            violations += 1
            exit_code = 1

    wall = time.time() - t0
    write_evidence(mod, prop_id, tier, seed, total, violations, known_hits, wall)
    n = total["evaluations"]
    nt = len(total["nontrivial"])
    print(
        f"{prop_id} {tier}: evaluations={n} distinct_nontrivial={nt} "
        f"violations={violations} known={sorted(known_hits)} wall={wall:.1f}s"
    )
    return exit_code


def write_evidence(mod, prop_id, tier, seed, total, violations, known_hits, wall):
    n = total["evaluations"]
    classes = {
        k: {"count": v, "fraction": round(v / n, 4) if n else 0}
        for k, v in sorted(total["classes"].items())
    }
    ev = {
        "property_id": prop_id,
        "tier": tier,
        "seed": seed,
        "level": getattr(mod, "LEVEL", "exploration"),
        "coverage": {
            "evaluations": n,
            "distinct_nontrivial": len(total["nontrivial"]),
            "rule": mod.RULE,
            "samples": total["samples"][: Recorder.MAX_SAMPLES],
            "classes": classes,
            "excluded": total["excluded"],
            "exhaustive_parts": total["exhaustive_parts"],
            "exhaustive": False,
            "known_finding_hits": known_hits,
            "failure_buckets": {
                k: b["count"] for k, b in sorted(total["buckets"].items())
            },
            "notes": total["notes"],
        },
        "assumptions": list(mod.ASSUMPTIONS),
        "wall_s": round(wall, 2),
        "violations": violations,
    }
    os.makedirs(os.path.join(OUT, "evidence"), exist_ok=True)
    path = os.path.join(OUT, "evidence", f"{prop_id}.json")
    with open(path, "w") as f:
        json.dump(ev, f, indent=1, sort_keys=True, default=str)
    validate_evidence(ev)


def validate_evidence(ev):
    schema_path = "/root/.vp/EVIDENCE.schema.json"
    try:
        import jsonschema  # optional
    except Exception:
        return
    if os.path.exists(schema_path):
        with open(schema_path) as f:
            jsonschema.validate(ev, json.load(f))


def replay(prop_id: str, path: str) -> int:
    setup_repo_path()
    mod = importlib.import_module(f"vp.props.{prop_id.lower()}")
    if hasattr(mod, "calibrate"):
        mod.calibrate()
    with open(path) as f:
        data = json.load(f)
    spec = data["spec"]
    try:
        out = mod.evaluate(spec)
    except BadSpec as e:
        print(f"HARNESS-ERROR bad spec: {e}")
        return 2
    if out.excluded:
        print(f"spec is in excluded class {out.excluded}")
        return 0
    if not out.failures:
        print(f"{prop_id}: replay passes")
        return 0
    known = load_known(prop_id)
    rc = 0
    for f in out.failures:
        owner = None
        for fnd in known:
            if attribute(mod, fnd, spec, f.to_dict()):
                owner = fnd
        if owner:
            print(
                f"KNOWN-FINDING: property={prop_id} {owner['id']}: "
                f"{owner['description']}"
            )
        else:
            print(f"VIOLATION property={prop_id} replay={path}")
            rc = 1
        print(f"  {f.clause} {f.kind} [{f.sig}]: {f.detail[:1500]}")
    return rc
