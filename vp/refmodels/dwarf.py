"""
Independent DWARF v4 codec for expression operations (section 7.7.1, fig. 24)
and call frame instructions (section 7.23, fig. 40).  Opcode numbers are typed
in from the standard's tables.  Imports nothing from gtirb_rewriting or leb128.

An item is (name, operands) where operands is a list of ints, or (for BLOCK
operands) a list of items.
"""

# operand kinds
U1, S1, U2, S2, U4, S4, U8, S8, ULEB, SLEB, ADDR, BLOCK, OFFS = (
    "u1", "s1", "u2", "s2", "u4", "s4", "u8", "s8", "uleb", "sleb", "addr",
    "block", "offs",
)

# name -> (opcode, [operand kinds])               DWARF v4 figure 24
DW_OP = {
    "addr": (0x03, [ADDR]),
    "deref": (0x06, []),
    "const1u": (0x08, [U1]),
    "const1s": (0x09, [S1]),
    "const2u": (0x0A, [U2]),
    "const2s": (0x0B, [S2]),
    "const4u": (0x0C, [U4]),
    "const4s": (0x0D, [S4]),
    "const8u": (0x0E, [U8]),
    "const8s": (0x0F, [S8]),
    "constu": (0x10, [ULEB]),
    "consts": (0x11, [SLEB]),
    "dup": (0x12, []),
    "drop": (0x13, []),
    "over": (0x14, []),
    "pick": (0x15, [U1]),
    "swap": (0x16, []),
    "rot": (0x17, []),
    "xderef": (0x18, []),
    "abs": (0x19, []),
    "and": (0x1A, []),
    "div": (0x1B, []),
    "minus": (0x1C, []),
    "mod": (0x1D, []),
    "mul": (0x1E, []),
    "neg": (0x1F, []),
    "not": (0x20, []),
    "or": (0x21, []),
    "plus": (0x22, []),
    "plus_uconst": (0x23, [ULEB]),
    "shl": (0x24, []),
    "shr": (0x25, []),
    "shra": (0x26, []),
    "xor": (0x27, []),
    "bra": (0x28, [S2]),
    "eq": (0x29, []),
    "ge": (0x2A, []),
    "gt": (0x2B, []),
    "le": (0x2C, []),
    "lt": (0x2D, []),
    "ne": (0x2E, []),
    "skip": (0x2F, [S2]),
    # 0x30..0x4f lit0..lit31, 0x50..0x6f reg0..31, 0x70..0x8f breg0..31: below
    "regx": (0x90, [ULEB]),
    "fbreg": (0x91, [SLEB]),
    "bregx": (0x92, [ULEB, SLEB]),
    "piece": (0x93, [ULEB]),
    "deref_size": (0x94, [U1]),
    "xderef_size": (0x95, [U1]),
    "nop": (0x96, []),
    "push_object_address": (0x97, []),
    "call2": (0x98, [U2]),
    "call4": (0x99, [U4]),
    "call_ref": (0x9A, [OFFS]),
    "form_tls_address": (0x9B, []),
    "call_frame_cfa": (0x9C, []),
    "bit_piece": (0x9D, [ULEB, ULEB]),
    "implicit_value": (0x9E, [ULEB]),  # + that many bytes; handled specially
    "stack_value": (0x9F, []),
}
# fused families: name -> (base opcode, count, trailing operand kinds)
DW_OP_FUSED = {
    "lit": (0x30, 32, []),
    "reg": (0x50, 32, []),
    "breg": (0x70, 32, [SLEB]),
}

# DWARF v4 figure 40
DW_CFA = {
    "nop": (0x00, []),
    "set_loc": (0x01, [ADDR]),
    "advance_loc1": (0x02, [U1]),
    "advance_loc2": (0x03, [U2]),
    "advance_loc4": (0x04, [U4]),
    "offset_extended": (0x05, [ULEB, ULEB]),
    "restore_extended": (0x06, [ULEB]),
    "undefined": (0x07, [ULEB]),
    "same_value": (0x08, [ULEB]),
    "register": (0x09, [ULEB, ULEB]),
    "remember_state": (0x0A, []),
    "restore_state": (0x0B, []),
    "def_cfa": (0x0C, [ULEB, ULEB]),
    "def_cfa_register": (0x0D, [ULEB]),
    "def_cfa_offset": (0x0E, [ULEB]),
    "def_cfa_expression": (0x0F, [BLOCK]),
    "expression": (0x10, [ULEB, BLOCK]),
    "offset_extended_sf": (0x11, [ULEB, SLEB]),
    "def_cfa_sf": (0x12, [ULEB, SLEB]),
    "def_cfa_offset_sf": (0x13, [SLEB]),
    "val_offset": (0x14, [ULEB, ULEB]),
    "val_offset_sf": (0x15, [ULEB, SLEB]),
    "val_expression": (0x16, [ULEB, BLOCK]),
}
# high two bits carry the primary opcode, low six the operand
DW_CFA_FUSED = {
    "advance_loc": (0x40, 64, []),
    "offset": (0x80, 64, [ULEB]),
    "restore": (0xC0, 64, []),
}

TABLES = {"op": (DW_OP, DW_OP_FUSED), "cfa": (DW_CFA, DW_CFA_FUSED)}


class Truncated(Exception):
    pass


class Malformed(Exception):
    pass


class Unknown(Exception):
    """first byte is not an opcode of the standard's table"""


class NestedUnknown(Exception):
    """a block operand contains a byte that is not a DW_OP of the standard"""


class OutOfRange(Exception):
    pass


def uleb(v):
    if v < 0:
        raise OutOfRange("uleb of negative")
    out = bytearray()
    while True:
        b = v & 0x7F
        v >>= 7
        if v:
            out.append(b | 0x80)
        else:
            out.append(b)
            return bytes(out)


def sleb(v):
    out = bytearray()
    while True:
        b = v & 0x7F
        v >>= 7  # arithmetic shift on python ints
        done = (v == 0 and not (b & 0x40)) or (v == -1 and (b & 0x40))
        if done:
            out.append(b)
            return bytes(out)
        out.append(b | 0x80)


def read_uleb(data, pos):
    result = 0
    shift = 0
    n = 0
    while True:
        if pos + n >= len(data):
            raise Truncated()
        b = data[pos + n]
        n += 1
        result |= (b & 0x7F) << shift
        shift += 7
        if not (b & 0x80):
            return result, n


def read_sleb(data, pos):
    result = 0
    shift = 0
    n = 0
    while True:
        if pos + n >= len(data):
            raise Truncated()
        b = data[pos + n]
        n += 1
        result |= (b & 0x7F) << shift
        shift += 7
        if not (b & 0x80):
            if b & 0x40:
                result -= 1 << shift
            return result, n


_FIXED = {U1: (1, False), S1: (1, True), U2: (2, False), S2: (2, True),
          U4: (4, False), S4: (4, True), U8: (8, False), S8: (8, True)}


def in_range(kind, v, ptr):
    if kind in _FIXED:
        size, signed = _FIXED[kind]
        if signed:
            return -(1 << (8 * size - 1)) <= v < (1 << (8 * size - 1))
        return 0 <= v < (1 << (8 * size))
    if kind == ULEB:
        return v >= 0
    if kind == SLEB:
        return True
    if kind in (ADDR, OFFS):
        return 0 <= v < (1 << (8 * ptr))
    raise AssertionError(kind)


def _pack(v, size, signed, order):
    if signed and v < 0:
        v += 1 << (8 * size)
    bs = [(v >> (8 * i)) & 0xFF for i in range(size)]
    if order == "big":
        bs.reverse()
    return bytes(bs)


def _unpack(data, pos, size, signed, order):
    if pos + size > len(data):
        raise Truncated()
    bs = list(data[pos:pos + size])
    if order == "big":
        bs.reverse()
    v = 0
    for i, b in enumerate(bs):
        v |= b << (8 * i)
    if signed and v >= 1 << (8 * size - 1):
        v -= 1 << (8 * size)
    return v


def lookup(table, name):
    plain, fused = TABLES[table]
    if name in plain:
        op, kinds = plain[name]
        return op, None, kinds
    base, count, kinds = fused[name]
    return base, count, kinds


def encode(table, item, order, ptr):
    """Encode one item; raises OutOfRange when an operand does not fit."""
    name, operands = item
    base, count, kinds = lookup(table, name)
    operands = list(operands)
    out = bytearray()
    if count is not None:
        v = operands.pop(0)
        if not (0 <= v < count):
            raise OutOfRange(f"{name} fused operand {v}")
        out.append(base + v)
    else:
        out.append(base)
    if len(operands) != len(kinds):
        raise Malformed("operand count")
    for kind, v in zip(kinds, operands):
        if kind == BLOCK:
            body = b"".join(encode("op", it, order, ptr) for it in v)
            out += uleb(len(body)) + body
            continue
        if not in_range(kind, v, ptr):
            raise OutOfRange(f"{name} {kind} {v}")
        if kind in _FIXED:
            size, signed = _FIXED[kind]
            out += _pack(v, size, signed, order)
        elif kind == ULEB:
            out += uleb(v)
        elif kind == SLEB:
            out += sleb(v)
        elif kind in (ADDR, OFFS):
            out += _pack(v, ptr, False, order)
    return bytes(out)


def decode(table, data, pos, order, ptr):
    """Decode one item at pos -> (item, consumed)."""
    plain, fused = TABLES[table]
    if pos >= len(data):
        raise Truncated()
    b = data[pos]
    n = 1
    name = None
    operands = []
    kinds = None
    for nm, (base, count, ks) in fused.items():
        if base <= b < base + count:
            name, kinds = nm, ks
            operands.append(b - base)
    if name is None:
        for nm, (op, ks) in plain.items():
            if op == b:
                name, kinds = nm, ks
    if name is None:
        raise Unknown(b)
    for kind in kinds:
        if kind in _FIXED:
            size, signed = _FIXED[kind]
            operands.append(_unpack(data, pos + n, size, signed, order))
            n += size
        elif kind == ULEB:
            v, k = read_uleb(data, pos + n)
            operands.append(v)
            n += k
        elif kind == SLEB:
            v, k = read_sleb(data, pos + n)
            operands.append(v)
            n += k
        elif kind in (ADDR, OFFS):
            operands.append(_unpack(data, pos + n, ptr, False, order))
            n += ptr
        elif kind == BLOCK:
            length, k = read_uleb(data, pos + n)
            n += k
            if pos + n + length > len(data):
                raise Truncated()
            end = pos + n + length
            items = []
            p = pos + n
            while p < end:
                try:
                    it, used = decode("op", data[:end], p, order, ptr)
                except Truncated:
                    raise Malformed("operation overruns its block")
                except Unknown as u:
                    raise NestedUnknown(*u.args)
                items.append(it)
                p += used
            operands.append(items)
            n += length
    if table == "op" and name == "implicit_value":
        n += operands[0]
        if pos + n > len(data):
            raise Truncated()
    return (name, operands), n


def opcode_names(table):
    """byte -> name for every defined first byte."""
    plain, fused = TABLES[table]
    out = {}
    for nm, (op, _k) in plain.items():
        out[op] = nm
    for nm, (base, count, _k) in fused.items():
        for i in range(count):
            out[base + i] = nm
    return out


# ---------------------------------------------------------------------------
# assembler semantics of the CFI directives GTIRB stores (gas manual, 7.12)
# ---------------------------------------------------------------------------
def assemble_directive(directive, operands, order, ptr):
    if directive == ".cfi_escape":
        if not all(isinstance(b, int) and 0 <= b <= 255 for b in operands):
            raise Malformed("escape operand not a byte")
        return bytes(operands)
    simple = {
        ".cfi_def_cfa": "def_cfa",
        ".cfi_def_cfa_register": "def_cfa_register",
        ".cfi_def_cfa_offset": "def_cfa_offset",
        ".cfi_undefined": "undefined",
        ".cfi_same_value": "same_value",
        ".cfi_register": "register",
        ".cfi_remember_state": "remember_state",
        ".cfi_restore_state": "restore_state",
    }
    if directive in simple:
        return encode("cfa", (simple[directive], list(operands)), order, ptr)
    if directive == ".cfi_restore":
        (r,) = operands
        if 0 <= r < 64:
            return encode("cfa", ("restore", [r]), order, ptr)
        return encode("cfa", ("restore_extended", [r]), order, ptr)
    raise Malformed(f"directive {directive}")


# ---------------------------------------------------------------------------
# constant-pushing encodings (for make_const_op minimality)
# ---------------------------------------------------------------------------
def const_candidates(v):
    """[(name, operands, length)] of every DW_OP that pushes the constant v."""
    out = []
    if 0 <= v <= 31:
        out.append(("lit", [v], 1))
    for nm, size, signed in (
        ("const1u", 1, False), ("const1s", 1, True),
        ("const2u", 2, False), ("const2s", 2, True),
        ("const4u", 4, False), ("const4s", 4, True),
        ("const8u", 8, False), ("const8s", 8, True),
    ):
        lo, hi = (-(1 << (8 * size - 1)), 1 << (8 * size - 1)) if signed else (0, 1 << (8 * size))
        if lo <= v < hi:
            out.append((nm, [v], 1 + size))
    if v >= 0:
        out.append(("constu", [v], 1 + len(uleb(v))))
    out.append(("consts", [v], 1 + len(sleb(v))))
    return out
