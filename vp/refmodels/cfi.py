"""
Reference interpreter for the CFI directives GTIRB stores (written from DWARF
v4 section 6.4.2 and the gas CFI directive documentation).  Independent of
gtirb_rewriting.dwarf.cfi_eval.

Input: groups = [(key, [(name, args, sym)])] in evaluation order, where `key`
identifies the (block, offset) location and sym is a symbol name or None.
Output: list of (key, state-or-None); raises Reject(kind) where the sequence
is ill-formed, with .index = number of groups fully evaluated before.
"""

import copy

from . import dwarf as R

OMIT = 0xFF


class Reject(Exception):
    def __init__(self, kind, msg, index):
        super().__init__(msg)
        self.kind = kind  # "state" -> CFIStateError, "value" -> ValueError
        self.index = index


def new_state(return_column):
    return {"ret": return_column, "pers": None, "lsda": None,
            "cur": {"cfa": None, "regs": {}}, "init": {"cfa": None, "regs": {}}, "stack": []}


def evaluate(groups, return_column, byteorder, ptr_size, _seeded=False):
    out = []
    st = copy.deepcopy(_SEED) if _seeded else None
    for gi, (key, directives) in enumerate(groups):
        started = False
        for name, args, sym in directives:
            def need_ro(what):
                if st["cur"]["cfa"] is None or st["cur"]["cfa"][0] != "ro":
                    raise Reject("state", f"{what} when the CFA is not register+offset", gi)

            if name == ".cfi_startproc":
                if st is not None:
                    raise Reject("state", "startproc inside a procedure", gi)
                st = new_state(return_column)
                started = True
            elif st is None:
                raise Reject("state", f"{name} outside a procedure", gi)
            elif name == ".cfi_endproc":
                st = None
            elif name in (".cfi_personality", ".cfi_lsda"):
                (enc,) = args
                slot = "pers" if name == ".cfi_personality" else "lsda"
                if enc == OMIT:
                    st[slot] = None
                else:
                    if sym is None:
                        raise Reject("value", f"{name} without a symbol", gi)
                    st[slot] = (enc, sym)
            elif name == ".cfi_return_column":
                (st["ret"],) = args
            elif name == ".cfi_def_cfa":
                r, o = args
                st["cur"]["cfa"] = ("ro", r, o)
            elif name == ".cfi_def_cfa_register":
                need_ro(name)
                (r,) = args
                st["cur"]["cfa"] = ("ro", r, st["cur"]["cfa"][2])
            elif name == ".cfi_def_cfa_offset":
                need_ro(name)
                (o,) = args
                st["cur"]["cfa"] = ("ro", st["cur"]["cfa"][1], o)
            elif name == ".cfi_adjust_cfa_offset":
                need_ro(name)
                (o,) = args
                st["cur"]["cfa"] = ("ro", st["cur"]["cfa"][1], st["cur"]["cfa"][2] + o)
            elif name == ".cfi_undefined":
                st["cur"]["regs"][args[0]] = ("undef",)
            elif name == ".cfi_same_value":
                st["cur"]["regs"][args[0]] = ("same",)
            elif name == ".cfi_register":
                st["cur"]["regs"][args[0]] = ("reg", args[1])
            elif name == ".cfi_restore":
                # DW_CFA_restore: the rule assigned by the initial instructions
                r = args[0]
                if r in st["init"]["regs"]:
                    st["cur"]["regs"][r] = st["init"]["regs"][r]
                else:
                    st["cur"]["regs"].pop(r, None)
            elif name == ".cfi_val_offset":
                st["cur"]["regs"][args[0]] = ("valoff", args[1])
            elif name == ".cfi_offset":
                st["cur"]["regs"][args[0]] = ("off", args[1])
            elif name == ".cfi_rel_offset":
                r, o = args
                cur = st["cur"]["regs"].get(r)
                if cur is None or cur[0] != "off":
                    raise Reject("state", "rel_offset when the register is not CFA+offset", gi)
                st["cur"]["regs"][r] = ("off", cur[1] + o)
            elif name == ".cfi_remember_state":
                st["stack"].append(copy.deepcopy(st["cur"]))
            elif name == ".cfi_restore_state":
                if not st["stack"]:
                    raise Reject("state", "restore_state with an empty stack", gi)
                st["cur"] = st["stack"].pop()
            elif name == ".cfi_escape":
                data = bytes(args)
                pos = 0
                while pos < len(data):
                    (iname, ops), n = R.decode("cfa", data, pos, byteorder, ptr_size)
                    pos += n
                    if iname == "def_cfa_expression":
                        st["cur"]["cfa"] = ("expr", _expr_bytes(ops[0], byteorder, ptr_size))
                    elif iname == "expression":
                        st["cur"]["regs"][ops[0]] = ("atexpr", _expr_bytes(ops[1], byteorder, ptr_size))
                    elif iname == "val_expression":
                        st["cur"]["regs"][ops[0]] = ("isexpr", _expr_bytes(ops[1], byteorder, ptr_size))
                    elif iname == "nop":
                        pass
                    else:
                        raise AssertionError(f"generator produced unsupported escape {iname}")
            else:
                raise AssertionError(f"generator produced unknown directive {name}")
        if st is not None and started:
            st["init"] = copy.deepcopy(st["cur"])
        out.append((key, copy.deepcopy(st)))
    return out


def _expr_bytes(items, byteorder, ptr_size):
    return b"".join(R.encode("op", it, byteorder, ptr_size) for it in items).hex()


def resume(state, directives, return_column, byteorder="little", ptr_size=8):
    """Apply directives to an existing state (or None) and return the new
    state (None when the procedure was closed).  Raises Reject."""
    st = copy.deepcopy(state)
    # run the single-pass interpreter with the state pre-seeded
    groups = [((0,), directives)]
    return _evaluate_from(st, groups, return_column, byteorder, ptr_size)[-1][1]


def _evaluate_from(st0, groups, return_column, byteorder, ptr_size):
    # small trampoline: evaluate() starts from "outside a procedure"; to resume
    # inside one we temporarily rebuild the state through a private entry.
    global _SEED
    _SEED = st0
    try:
        return evaluate(groups, return_column, byteorder, ptr_size, _seeded=True)
    finally:
        _SEED = None


_SEED = None
