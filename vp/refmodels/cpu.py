"""
Tiny concrete emulators for exactly the instruction forms gtirb-rewriting's
ABIs and CallPatch emit (DESIGN 6.3).  Decoding is done by capstone; an
instruction the emulator does not know raises Unknown (=> harness error, never
a pass).

Machine state: `regs` (canonical full-width register name -> int),
`flags` (opaque token), `mem` (address -> (value, size, origin)), a store log
and a load log.  `symaddr(name)` gives tagged addresses for symbolic operands.
"""

import capstone
from capstone import arm64_const as A64
from capstone import mips_const as MC
from capstone import x86_const as X


class Unknown(Exception):
    pass


class Fault(Exception):
    """the emulated code did something the machine forbids (misaligned SP on ARM64, ...)"""


_FRESH = [0]


def fresh():
    _FRESH[0] += 1
    return ("flags", _FRESH[0])


class Machine:
    def __init__(self, isa, regs, sp, word):
        self.isa = isa
        self.regs = dict(regs)
        self.word = word
        self.sp_name = {"x64": "rsp", "ia32": "esp", "arm64": "sp", "mips32": "sp"}[isa]
        self.regs[self.sp_name] = sp
        self.flags = fresh()
        self.mem = {}
        self.stores = []   # (addr, size, phase)
        self.loads = []    # (addr, size, phase, origin)
        self.phase = "prologue"
        self.mask = (1 << (8 * word)) - 1
        self.calls = []    # (target, snapshot)
        self.symexprs = {}

    @property
    def sp(self):
        v = self.regs[self.sp_name]
        if not isinstance(v, int):
            raise Fault(f"the stack pointer holds {v!r}, not an address")
        return v

    @sp.setter
    def sp(self, v):
        if not isinstance(v, int):
            # the code loaded something that is not an address into SP
            self.regs[self.sp_name] = v
            return
        self.regs[self.sp_name] = v & self.mask

    def store(self, addr, value, size):
        self.mem[addr] = (value, size, self.phase)
        self.stores.append((addr, size, self.phase))

    def load(self, addr, size):
        ent = self.mem.get(addr)
        if ent is None or ent[1] != size:
            self.loads.append((addr, size, self.phase, None))
            return ("garbage", addr)
        self.loads.append((addr, size, self.phase, ent[2]))
        return ent[0]

    def scribble_below_sp(self):
        """the patch body may have used everything below its stack pointer"""
        for a in list(self.mem):
            if a < self.sp:
                self.mem[a] = (("scribbled", a), self.mem[a][1], "body")


# ---------------------------------------------------------------------------
# x86 (32 and 64 bit)
# ---------------------------------------------------------------------------
_X86_FULL = {}
for _n64, _n32, _n16, _n8 in (
    ("rax", "eax", "ax", "al"), ("rbx", "ebx", "bx", "bl"), ("rcx", "ecx", "cx", "cl"), ("rdx", "edx", "dx", "dl"),
    ("rsi", "esi", "si", "sil"), ("rdi", "edi", "di", "dil"), ("rbp", "ebp", "bp", "bpl"), ("rsp", "esp", "sp", "spl"),
):
    for _x in (_n64, _n32, _n16, _n8):
        _X86_FULL[_x] = _n64
for _i in range(8, 16):
    for _s in ("", "d", "w", "b"):
        _X86_FULL[f"r{_i}{_s}"] = f"r{_i}"
for _h, _f in (("ah", "rax"), ("bh", "rbx"), ("ch", "rcx"), ("dh", "rdx")):
    _X86_FULL[_h] = _f


def x86_canon(name, isa):
    full = _X86_FULL[name.lower()]
    if isa == "ia32":
        return "e" + full[1:]
    return full


class X86:
    def __init__(self, isa):
        self.isa = isa
        self.cs = capstone.Cs(capstone.CS_ARCH_X86, capstone.CS_MODE_64 if isa == "x64" else capstone.CS_MODE_32)
        self.cs.detail = True
        self.word = 8 if isa == "x64" else 4

    def reg(self, insn, r):
        return x86_canon(insn.reg_name(r), self.isa)

    def run(self, m, code, symexprs=None, base=0):
        """symexprs: {offset in code: name}"""
        symexprs = symexprs or {}
        off = 0
        for insn in self.cs.disasm(code, base):
            self.step(m, insn, symexprs, base)
            off += insn.size
        if off != len(code):
            raise Unknown(f"undecodable bytes at {off}: {code[off:off + 8].hex()}")

    def _sym_in(self, insn, symexprs, base):
        for o in range(insn.address - base, insn.address - base + insn.size):
            if o in symexprs:
                return symexprs[o]
        return None

    def step(self, m, insn, symexprs, base):
        w = self.word
        mn = insn.mnemonic
        ops = insn.operands
        sym = self._sym_in(insn, symexprs, base)

        def memaddr(op):
            mem = op.mem
            if mem.index != 0:
                raise Unknown(f"indexed memory operand: {insn.mnemonic} {insn.op_str}")
            if mem.base == 0 or insn.reg_name(mem.base) in ("rip", "eip"):
                if sym is None:
                    raise Unknown(f"absolute memory operand without a symbol: {insn.op_str}")
                return ("mem-of", sym)
            b = self.reg(insn, mem.base)
            v = m.regs[b]
            if not isinstance(v, int):
                if isinstance(v, tuple) and v and v[0] in ("garbage", "havoc", "scribbled"):
                    raise Fault(f"memory access through {b} which holds {v!r}")
                raise Unknown(f"memory access through symbolic register {b}")
            return (v + mem.disp) & m.mask

        if mn in ("push", "pushq", "pushl"):
            op = ops[0]
            if op.type == X.X86_OP_REG:
                val = m.regs[self.reg(insn, op.reg)]
            elif op.type == X.X86_OP_IMM:
                val = ("addr-of", sym) if sym is not None else (op.imm & m.mask)
            else:
                a = memaddr(op)
                val = ("contents-of", a[1]) if isinstance(a, tuple) else m.load(a, w)
            m.sp = m.sp - w
            m.store(m.sp, val, w)
        elif mn in ("pop", "popq", "popl"):
            op = ops[0]
            val = m.load(m.sp, w)
            m.sp = m.sp + w
            if op.type != X.X86_OP_REG:
                raise Unknown(insn.op_str)
            m.regs[self.reg(insn, op.reg)] = val
        elif mn in ("pushfq", "pushfd", "pushf", "pushfl"):
            m.sp = m.sp - w
            m.store(m.sp, m.flags, w)
        elif mn in ("popfq", "popfd", "popf", "popfl"):
            m.flags = m.load(m.sp, w)
            m.sp = m.sp + w
        elif mn in ("lea", "leaq", "leal"):
            dst = self.reg(insn, ops[1].reg if ops[0].type == X.X86_OP_MEM else ops[0].reg)
            mop = ops[0] if ops[0].type == X.X86_OP_MEM else ops[1]
            a = memaddr(mop)
            m.regs[dst] = ("addr-of", a[1]) if isinstance(a, tuple) else a
        elif mn.startswith("mov"):
            src, dst = (ops[0], ops[1]) if self.cs.syntax != capstone.CS_OPT_SYNTAX_INTEL else (ops[1], ops[0])
            # capstone default syntax is intel operand order: ops[0]=dst
            dst, src = ops[0], ops[1]
            if src.type == X.X86_OP_REG:
                val = m.regs[self.reg(insn, src.reg)]
            elif src.type == X.X86_OP_IMM:
                val = ("addr-of", sym) if sym is not None else (src.imm & ((1 << (8 * src.size)) - 1))
                if sym is None and src.size < w and dst.type == X.X86_OP_REG and insn.reg_name(dst.reg).startswith("r") and w == 8:
                    # mov $imm32, %r64 sign extends
                    if src.imm & (1 << (8 * src.size - 1)):
                        val = (src.imm | ~((1 << (8 * src.size)) - 1)) & m.mask
            else:
                a = memaddr(src)
                val = ("contents-of", a[1]) if isinstance(a, tuple) else m.load(a, w)
            if dst.type == X.X86_OP_REG:
                name = insn.reg_name(dst.reg)
                full = self.reg(insn, dst.reg)
                if isinstance(val, int) and dst.size == 4 and w == 8:
                    val &= 0xFFFFFFFF   # 32-bit writes zero-extend
                m.regs[full] = val
            else:
                a = memaddr(dst)
                if isinstance(a, tuple):
                    raise Unknown("store to symbol")
                m.store(a, val, w)
        elif mn in ("and", "andq", "andl"):
            dst, src = ops[0], ops[1]
            if dst.type != X.X86_OP_REG or src.type != X.X86_OP_IMM:
                raise Unknown(insn.op_str)
            r = self.reg(insn, dst.reg)
            if not isinstance(m.regs[r], int):
                raise Fault(f"arithmetic on {r} which holds {m.regs[r]!r}")
            m.regs[r] = m.regs[r] & (src.imm & m.mask)
            m.flags = fresh()
        elif mn in ("sub", "subq", "subl", "add", "addq", "addl"):
            dst, src = ops[0], ops[1]
            if dst.type != X.X86_OP_REG or src.type != X.X86_OP_IMM:
                raise Unknown(insn.op_str)
            r = self.reg(insn, dst.reg)
            delta = src.imm if mn.startswith("add") else -src.imm
            if not isinstance(m.regs[r], int):
                raise Fault(f"arithmetic on {r} which holds {m.regs[r]!r}")
            m.regs[r] = (m.regs[r] + delta) & m.mask
            m.flags = fresh()
        elif mn in ("call", "callq", "calll"):
            snapshot = {"regs": dict(m.regs), "sp": m.sp, "mem": dict(m.mem), "target": sym}
            m.calls.append(snapshot)
            # the callee returns: return address pushed and popped; a callee that
            # cleans up its own stack arguments (stdcall-like) pops them too
            m.sp = m.sp + getattr(m, "callee_pop", 0)
            m.flags = fresh()
        elif mn == "nop":
            pass
        else:
            raise Unknown(f"{mn} {insn.op_str}")


# ---------------------------------------------------------------------------
# AArch64
# ---------------------------------------------------------------------------
class ARM64:
    word = 8

    def __init__(self):
        self.cs = capstone.Cs(capstone.CS_ARCH_ARM64, capstone.CS_MODE_ARM)
        self.cs.detail = True

    def rn(self, insn, r):
        n = insn.reg_name(r)
        if n.startswith("w") and n[1:].isdigit():
            return "x" + n[1:]
        if n == "wsp":
            return "sp"
        return {"fp": "x29", "lr": "x30"}.get(n, n)

    def run(self, m, code, symexprs=None, base=0):
        symexprs = symexprs or {}
        off = 0
        for insn in self.cs.disasm(code, base):
            self.step(m, insn, symexprs.get(insn.address - base))
            off += insn.size
        if off != len(code):
            raise Unknown(f"undecodable bytes at {off}")

    def step(self, m, insn, sym):
        mn = insn.mnemonic
        ops = insn.operands

        def check_sp(base):
            if base == "sp" and m.sp % 16:
                raise Fault(f"sp {hex(m.sp)} not 16-byte aligned at '{mn} {insn.op_str}'")

        if mn in ("stp", "ldp", "str", "ldr"):
            memop = ops[-1] if ops[-1].type == A64.ARM64_OP_MEM else ops[-2]
            regs = [self.rn(insn, o.reg) for o in ops if o.type == A64.ARM64_OP_REG][: 2 if mn in ("stp", "ldp") else 1]
            base = self.rn(insn, memop.mem.base)
            disp = memop.mem.disp
            post = None
            if ops[-1].type == A64.ARM64_OP_IMM:
                post = ops[-1].imm
            wb = insn.writeback
            addr = m.regs[base]
            if not isinstance(addr, int):
                raise Unknown("symbolic base")
            if wb and post is None:      # pre-index
                addr = (addr + disp) & m.mask
                m.regs[base] = addr
            elif not wb:
                addr = (addr + disp) & m.mask
            check_sp(base)
            for k, r in enumerate(regs):
                if mn in ("stp", "str"):
                    m.store(addr + 8 * k, m.regs[r], 8)
                else:
                    m.regs[r] = m.load(addr + 8 * k, 8)
            if wb and post is not None:
                m.regs[base] = (m.regs[base] + post) & m.mask
        elif mn == "mrs":
            m.regs[self.rn(insn, ops[0].reg)] = m.flags
        elif mn == "msr":
            m.flags = m.regs[self.rn(insn, ops[1].reg)]
        elif mn in ("sub", "add"):
            d = self.rn(insn, ops[0].reg)
            s = self.rn(insn, ops[1].reg)
            if ops[2].type != A64.ARM64_OP_IMM:
                raise Unknown(insn.op_str)
            imm = ops[2].imm
            if ops[2].shift.value:
                imm <<= ops[2].shift.value
            v = m.regs[s]
            if sym is not None:
                # add xN, xN, :lo12:sym completes an adrp
                if isinstance(v, tuple) and v[0] == "page-of" and v[1] == sym:
                    m.regs[d] = ("addr-of", sym)
                else:
                    raise Unknown("lo12 without matching adrp")
            else:
                if not isinstance(v, int):
                    raise Unknown("arithmetic on symbolic value")
                m.regs[d] = (v + (imm if mn == "add" else -imm)) & m.mask
        elif mn == "adrp":
            m.regs[self.rn(insn, ops[0].reg)] = ("page-of", sym)
        elif mn in ("mov", "movz", "movn"):
            d = self.rn(insn, ops[0].reg)
            if ops[1].type == A64.ARM64_OP_REG:
                m.regs[d] = m.regs[self.rn(insn, ops[1].reg)]
            else:
                imm = ops[1].imm
                sh = ops[1].shift.value if ops[1].shift.type else 0
                v = (imm << sh)
                if mn == "movn":
                    v = ~v
                if insn.reg_name(ops[0].reg).startswith("w"):
                    v &= 0xFFFFFFFF
                m.regs[d] = v & m.mask
        elif mn == "movk":
            d = self.rn(insn, ops[0].reg)
            imm = ops[1].imm
            sh = ops[1].shift.value if ops[1].shift.type else 0
            v = m.regs[d]
            if not isinstance(v, int):
                raise Unknown("movk on symbolic value")
            m.regs[d] = (v & ~(0xFFFF << sh)) | (imm << sh)
        elif mn == "bl":
            m.calls.append({"regs": dict(m.regs), "sp": m.sp, "mem": dict(m.mem), "target": sym})
            if m.sp % 16:
                raise Fault("sp not 16-byte aligned at bl")
        elif mn == "nop":
            pass
        else:
            raise Unknown(f"{mn} {insn.op_str}")


# ---------------------------------------------------------------------------
# MIPS32 (big endian)
# ---------------------------------------------------------------------------
class MIPS32:
    word = 4

    def __init__(self):
        self.cs = capstone.Cs(capstone.CS_ARCH_MIPS, capstone.CS_MODE_MIPS32 | capstone.CS_MODE_BIG_ENDIAN)
        self.cs.detail = True

    def run(self, m, code, symexprs=None, base=0):
        off = 0
        for insn in self.cs.disasm(code, base):
            self.step(m, insn)
            off += insn.size
        if off != len(code):
            raise Unknown(f"undecodable bytes at {off}")

    def step(self, m, insn):
        mn = insn.mnemonic
        ops = insn.operands
        rn = lambda r: insn.reg_name(r)
        if mn == "addiu":
            d, s, imm = rn(ops[0].reg), rn(ops[1].reg), ops[2].imm
            m.regs[d] = (m.regs[s] + imm) & m.mask
        elif mn in ("sw", "lw"):
            r = rn(ops[0].reg)
            base = rn(ops[1].mem.base)
            addr = (m.regs[base] + ops[1].mem.disp) & m.mask
            if addr % 4:
                raise Fault("unaligned word access")
            if mn == "sw":
                m.store(addr, m.regs[r], 4)
            else:
                m.regs[r] = m.load(addr, 4)
        elif mn == "nop":
            pass
        else:
            raise Unknown(f"{mn} {insn.op_str}")


def emulator(isa):
    if isa in ("x64", "ia32"):
        return X86(isa)
    if isa == "arm64":
        return ARM64()
    return MIPS32()
