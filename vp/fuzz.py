"""Coverage-guided campaigns (atheris / libFuzzer) over the same spec strategies.

    python -m vp.fuzz Cxx --tier quick|thorough --runs N --seed S --out FILE.json

The fuzzer's byte string drives the property's Hypothesis strategy through
``fuzz_one_input`` (bytes -> choice sequence -> spec), so every input the
fuzzer finds is a spec of the property's own domain; the spec is judged by the
property's ``evaluate`` (the oracle lives inside the target) and recorded in a
``Recorder`` exactly like a Hypothesis-generated case.  gtirb_rewriting is
imported under atheris' instrumentation, so libFuzzer's corpus grows along the
library's branch coverage.  libFuzzer leaves through _exit(), hence the
recorder is dumped to FILE every few hundred executions and at each new
failure bucket; the parent merges the dumps of all shards.

A campaign is bounded by -runs (case count), never by time.  libFuzzer's
-seed pins it only approximately; what is reproducible is the saved spec of
each failure (written to the replay file by the parent like any other)."""

import argparse
import importlib
import json
import os
import sys


def main():
    ap = argparse.ArgumentParser()
    ap.add_argument("prop")
    ap.add_argument("--tier", default="quick")
    ap.add_argument("--runs", type=int, default=2000)
    ap.add_argument("--seed", type=int, default=1)
    ap.add_argument("--out", required=True)
    ap.add_argument("--max-len", type=int, default=2048)
    a = ap.parse_args()

    from vp import core

    deps = os.path.join(core.ROOT, ".deps")
    if deps not in sys.path:
        sys.path.insert(0, deps)
    import atheris

    # the library must be imported for the first time under instrumentation
    os.environ.setdefault(core.HOOK_GUARD, "1")
    if core.REPO_SRC not in sys.path[:1]:
        sys.path.insert(0, core.REPO_SRC)

    with atheris.instrument_imports(include=["gtirb_rewriting"]):
        import gtirb_rewriting  # noqa: F401
        import gtirb_rewriting.assembler  # noqa: F401
        import gtirb_rewriting.dwarf.cfi  # noqa: F401
        import gtirb_rewriting.dwarf.cfi_eval  # noqa: F401
        import gtirb_rewriting.dwarf.expr  # noqa: F401
        import gtirb_rewriting.patches  # noqa: F401
    core.setup_repo_path()

    from hypothesis import given
    from hypothesis.internal.conjecture import providers as _prov

    # Hypothesis 6.168's BytestringProvider.draw_integer compares the raw bits
    # with [min_value, max_value] without adding min_value, so a bounded draw
    # whose lower bound exceeds its span (e.g. the key shuffle inside
    # fixed_dictionaries) overruns every buffer.  Draw offset + min instead.
    def draw_integer(self, min_value=None, max_value=None, *, weights=None, shrink_towards=0):
        if min_value is None and max_value is None:
            min_value, max_value = -(2 ** 127), 2 ** 127 - 1
        elif min_value is None:
            min_value = max_value - 2 ** 64
        elif max_value is None:
            max_value = min_value + 2 ** 64
        if min_value == max_value:
            return min_value
        span = max_value - min_value
        bits = span.bit_length()
        value = self._draw_bits(bits)
        while value > span:
            value = self._draw_bits(bits)
        return min_value + value

    _prov.BytestringProvider.draw_integer = draw_integer

    mod = importlib.import_module(f"vp.props.{a.prop.lower()}")
    if hasattr(mod, "calibrate"):
        mod.calibrate()
    rec = core.Recorder()
    state = {"n": 0, "buckets": 0}

    def dump():
        d = rec.to_dict()
        d["notes"] = dict(d.get("notes", {}), fuzz_executions=state["n"])
        tmp = a.out + ".tmp"
        with open(tmp, "w") as f:
            json.dump(d, f)
        os.replace(tmp, a.out)

    @core.hypothesis_settings(1)
    @given(mod.strategy(a.tier))
    def target(spec):
        rec.run(mod, spec)

    fuzz_one = target.hypothesis.fuzz_one_input

    def one(data):
        state["n"] += 1
        try:
            fuzz_one(data)
        except Exception:
            import traceback

            rec.harness_errors.append("fuzz target crashed: " + traceback.format_exc()[-2000:])
            dump()
        if len(rec.buckets) != state["buckets"] or state["n"] % 250 == 0:
            state["buckets"] = len(rec.buckets)
            dump()

    corpus = a.out + ".corpus"
    os.makedirs(corpus, exist_ok=True)
    # Hypothesis rejects a byte string that is too short for the choices the
    # strategy makes, so start from a few long pseudo-random inputs (a pure
    # function of the seed) and let libFuzzer use the full length at once
    import hashlib

    for k in range(8):
        blob = b"".join(hashlib.blake2b(f"{a.seed}/{k}/{j}".encode(), digest_size=64).digest() for j in range(a.max_len // 64))
        with open(os.path.join(corpus, f"seed{k}"), "wb") as f:
            f.write(blob[: a.max_len // (1 + k % 4)])
    argv = [sys.argv[0], f"-runs={a.runs}", f"-seed={a.seed or 1}", f"-max_len={a.max_len}", "-len_control=0",
            "-print_final_stats=0", "-verbosity=0", corpus]
    dump()
    atheris.Setup(argv, one)
    atheris.Fuzz()
    dump()


if __name__ == "__main__":
    main()
