"""C12 - assembler output: bytes, blocks and CFG match the assembly text."""

from hypothesis import strategies as st

from .. import isa as I
from ..core import BadSpec, Outcome, exc_kind

ID = "C12"
TECHNIQUE = ("property-based testing (Hypothesis): token programs generated from the supported assembly vocabulary are "
             "rendered to text and assembled; the result is judged against expectations derived from the token list "
             "(template bytes calibrated against mcasm/capstone), never against the implementation")
RULE = ("a case is a program of 1-25 tokens (ordinary / jump / jcc / call / ret / indirect instructions with references "
        "to own labels, module symbols and allowed undefined symbols; global and temporary labels, several in a row and "
        "at the very end; .byte / .zero / .string / .ascii / .long sym+k / .quad sym / .align; section switches) for "
        "X64 (AT&T and Intel), IA32, ARM64, MIPS32, ELF and PE, trivially_unreachable on and off; on x86 also instructions "
        "with two symbolic operands of different widths (displacement + 8/16/32-bit immediate), and undefined names that "
        "look like temporary labels. Clauses: bytes; "
        "tiling (contiguous, ordered, at most one empty block at the end); every control transfer ends its block with "
        "exactly the edges of its kind, fallthroughs lead to the physically next block; labels become symbols at their "
        "position; .byte-only blocks without incoming edges are data, blocks with instructions are code; each symbolic "
        "operand yields one expression with the right symbol (identity for module symbols), addend, attributes, size; "
        "a LEB128 value sits alone in a data block typed ULEB128/SLEB128; every CFI directive is keyed at its listing "
        "position, in listing order, personality/LSDA/return column at their procedure's start. "
        "Non-trivial = the program contains at least two of {label directly after a terminator, data run next to code, "
        "several labels in a row, section switch, .align}; distinct by spec hash.")
ASSUMPTIONS = [
    "expected bytes come from the calibrated template table and from the directive definitions",
    "where block boundaries fall between ordinary instructions / data is not judged, only that blocks tile the section",
    "sizes of symbolic expressions: exact on x86, within 1..8 on ARM64/MIPS32",
    ".uleb128/.sleb128 with a constant operand is rejected by the library as unsupported and is not generated; a LEB128 "
    "value in the executable section that control flow reaches is a documented rejection (UnsupportedAssemblyError), accepted",
    "blocks that carry CFI directives are not judged by the code/data classification clause (the library keeps them code "
    "because cfiDirectives can only describe code blocks)",
]
MIPS_OK = ("nop", "xor", "push", "mark")
CFI_KINDS = ["start", "start", "end", "end", "def_cfa", "def_cfa_offset", "def_cfa_register", "adjust", "offset",
             "rel_offset", "register", "remember", "restore_state", "restore", "same_value", "undefined", "escape",
             "personality", "lsda", "return_column"]
CFI_TEXT = {
    "def_cfa": (".cfi_def_cfa", "ab"), "def_cfa_offset": (".cfi_def_cfa_offset", "b"),
    "def_cfa_register": (".cfi_def_cfa_register", "a"), "adjust": (".cfi_adjust_cfa_offset", "b"),
    "offset": (".cfi_offset", "ab"), "rel_offset": (".cfi_rel_offset", "ab"), "register": (".cfi_register", "aA"),
    "remember": (".cfi_remember_state", ""), "restore_state": (".cfi_restore_state", ""),
    "restore": (".cfi_restore", "a"), "same_value": (".cfi_same_value", "a"), "undefined": (".cfi_undefined", "a"),
}
PTR_ENC = [0x9B, 0x1B, 0x00, 0x03]


def calibrate():
    I.calibrate()


_small = st.integers(0, 20)


def _tok(isa):
    tab = I.table(isa)
    names = [t.name for t in I.TABLES[isa] if t.patch]
    ords = [n for n in names if tab[n].kind == "ord"]
    terms = [n for n in names if tab[n].kind != "ord"]
    ref = st.fixed_dictionaries({"k": st.sampled_from(["own", "own", "own", "mod", "mod", "undef", "undeft"]), "i": _small})
    insn = st.fixed_dictionaries({"t": st.sampled_from(ords + ords + terms if terms else ords), "sym": ref,
                                  "imm": st.integers(0, 0xFFFF), "add": st.sampled_from([0, 0, 0, 8, 16])})
    lab = st.fixed_dictionaries({"lab": st.integers(0, 5), "temp": st.booleans()})
    # x86: one instruction with two symbolic operands of different widths (displacement + immediate)
    two = st.fixed_dictionaries({"t2": st.integers(0, 3), "sym": ref, "sym2": ref}) if I.TWO_SYM.get(isa) else insn
    data = st.one_of(
        st.fixed_dictionaries({"d": st.just("byte"), "v": st.lists(st.integers(0, 255), min_size=1, max_size=4)}),
        st.fixed_dictionaries({"d": st.just("zero"), "n": st.integers(1, 5)}),
        st.fixed_dictionaries({"d": st.sampled_from(["string", "ascii"]), "s": st.sampled_from(["a", "hi", "xyz"])}),
        st.fixed_dictionaries({"d": st.just("word"), "sym": ref, "add": st.sampled_from([0, 0, 4]), "w": st.sampled_from([4, 8])}),
        st.fixed_dictionaries({"d": st.just("align"), "n": st.sampled_from([2, 4, 8])}),
        st.fixed_dictionaries({"d": st.just("leb"), "s": st.booleans(), "sym": ref}),
    )
    cfi = st.fixed_dictionaries({"cfi": st.sampled_from(CFI_KINDS), "a": st.integers(0, 15), "b": st.integers(-64, 64),
                                 "sym": ref, "esc": st.lists(st.integers(0, 255), min_size=1, max_size=4)})
    sec = st.fixed_dictionaries({"sec": st.sampled_from(["text", "data", "rodata", "text", "xtext"])})
    # bursts of CFI directives and labels at one position (several empty
    # blocks in a row that the assembler has to merge)
    burst = st.fixed_dictionaries({"seq": st.lists(st.one_of(cfi, cfi, lab), min_size=2, max_size=5)})
    return st.one_of(insn, insn, insn, insn, lab, lab, data, data, sec, cfi, cfi, burst, two)


def strategy(tier):
    n = 12 if tier == "quick" else 25

    def build(pair):
        isa, fmt = pair
        return st.fixed_dictionaries({
            "isa": st.just(isa), "fmt": st.just(fmt),
            "syntax": st.sampled_from(["att", "intel"]) if isa == "x64" else st.just("att"),
            "unreach": st.booleans(), "toks": st.lists(_tok(isa), min_size=1, max_size=n),
        })

    cache = {p: build(p) for p in I.PAIRS}
    return st.sampled_from(I.PAIRS).flatmap(lambda p: cache[p])


def budget(tier):
    return 40_000 if tier == "quick" else 800_000


# ---------------------------------------------------------------------------
class _Item:
    def __init__(self, kind, pos, size, **kw):
        self.kind, self.pos, self.size = kind, pos, size
        self.__dict__.update(kw)


def _program(spec):
    """-> (text, sections{name: [items]}, labels{name: (sec, pos)}, undef names)"""
    isa, fmt = spec["isa"], spec["fmt"]
    tab = I.table(isa)
    intel = spec.get("syntax") == "intel"
    toks = []
    for t in spec["toks"]:
        toks.extend(t["seq"] if "seq" in t else [t])
    # labels first
    tprefix = I.temp_prefix(isa, fmt)
    own = []
    for t in toks:
        if "lab" in t:
            nm = (f"{tprefix}t{t['lab']}" if t.get("temp") else f"glab{t['lab']}")
            if nm not in own:
                own.append(nm)
    rodata = ".rodata" if fmt == "elf" else ".rdata"
    secname = {"text": ".text", "data": ".data", "rodata": rodata, "xtext": ".xtext"}
    cur = ".text"
    sections = {".text": []}
    pos = {".text": 0}
    labels = {}
    lines = []
    defined = set()
    text_labels = set()
    # first pass: which own labels are defined in .text (valid branch targets)
    c2 = ".text"
    for t in toks:
        if "sec" in t:
            c2 = secname[t["sec"]]
        elif "lab" in t:
            nm = (f"{tprefix}t{t['lab']}" if t.get("temp") else f"glab{t['lab']}")
            if nm not in defined:
                defined.add(nm)
                if c2 == ".text":
                    text_labels.add(nm)
    defined = set()
    undef = set()

    def resolve(ref, branch):
        k = ref["k"]
        if k == "own":
            pool = sorted(text_labels) if branch else own
            if pool:
                return pool[ref["i"] % len(pool)], "own"
            k = "mod"
        if k == "mod":
            pool = ["modfn", "modext"] if branch else ["modfn", "modext", "moddata"]
            return pool[ref["i"] % len(pool)], "mod"
        # an undefined name may also look like a temporary label of the target (".Lu0")
        nm = f"{tprefix}u{ref['i'] % 2}" if k == "undeft" else f"undef{ref['i'] % 3}"
        undef.add(nm)
        return nm, "undef"

    proc = None   # the open CFI procedure (.text only): dict(depth, pers, lsda, rc)

    def cfi_item(name, args, sym=None, how=None, group="insn"):
        sections[".text"].append(_Item("cfi", pos[".text"], 0, d=(name, list(args), sym), how=how, group=group))

    for t in toks:
        if "cfi" in t:
            # well-formed by construction: directives only inside a procedure,
            # procedures only in .text, restore_state only after remember_state
            k = t["cfi"]
            if cur != ".text":
                continue
            if k == "start":
                if proc is not None:
                    lines.append(".cfi_endproc")
                    cfi_item(".cfi_endproc", [], group="end")
                proc = {"depth": 0}
                lines.append(".cfi_startproc")
                cfi_item(".cfi_startproc", [], group="start")
                continue
            if proc is None:
                continue
            if k == "end":
                lines.append(".cfi_endproc")
                cfi_item(".cfi_endproc", [], group="end")
                proc = None
            elif k in ("personality", "lsda"):
                if k in proc:
                    continue
                proc[k] = True
                nm, how = resolve(t["sym"], False)
                enc = PTR_ENC[t["a"] % len(PTR_ENC)]
                lines.append(f".cfi_{k} {enc}, {nm}")
                cfi_item(f".cfi_{k}", [enc], nm, how, group=k)
            elif k == "return_column":
                if k in proc:
                    continue
                proc[k] = True
                lines.append(f".cfi_return_column {t['a']}")
                cfi_item(".cfi_return_column", [t["a"]], group=k)
            elif k == "escape":
                vals = [v & 0xFF for v in t.get("esc", [0])] or [0]
                lines.append(".cfi_escape " + ", ".join(str(v) for v in vals))
                cfi_item(".cfi_escape", vals)
            else:
                if k == "restore_state":
                    if proc["depth"] == 0:
                        continue
                    proc["depth"] -= 1
                if k == "remember":
                    proc["depth"] += 1
                name, sig = CFI_TEXT[k]
                args = [{"a": t["a"], "A": (t["a"] + 3) % 16, "b": t["b"]}[c] for c in sig]
                lines.append(name + (" " + ", ".join(str(a) for a in args) if args else ""))
                cfi_item(name, args)
            continue
        if "sec" in t:
            cur = secname[t["sec"]]
            sections.setdefault(cur, [])
            pos.setdefault(cur, 0)
            if t["sec"] == "rodata":
                lines.append(f".section {rodata}" + (',"a"' if fmt == "elf" else ',"dr"'))
            elif t["sec"] == "xtext":
                # a second executable section
                lines.append(".section .xtext" + (',"ax"' if fmt == "elf" else ',"xr"'))
            else:
                lines.append("." + t["sec"])
            continue
        if "lab" in t:
            nm = (f"{tprefix}t{t['lab']}" if t.get("temp") else f"glab{t['lab']}")
            if nm in defined:
                continue
            defined.add(nm)
            labels[nm] = (cur, pos[cur], bool(t.get("temp")))
            sections[cur].append(_Item("label", pos[cur], 0, name=nm))
            lines.append(f"{nm}:")
            continue
        if "d" in t:
            d = t["d"]
            if d == "byte":
                bs = bytes(t["v"])
                lines.append(".byte " + ", ".join(str(b) for b in bs))
                it = _Item("data", pos[cur], len(bs), data=bs, dkind="byte")
            elif d == "zero":
                if t["n"] < 1:
                    raise BadSpec(".zero 0")
                bs = bytes(t["n"])
                lines.append(f".zero {t['n']}")
                it = _Item("data", pos[cur], len(bs), data=bs, dkind="zero")
            elif d in ("string", "ascii"):
                bs = t["s"].encode() + (b"\0" if d == "string" else b"")
                lines.append(f'.{d} "{t["s"]}"')
                it = _Item("data", pos[cur], len(bs), data=bs, dkind=d)
            elif d == "word":
                w = t["w"]
                if isa in ("ia32", "mips32"):
                    w = 4
                nm, how = resolve(t["sym"], False)
                add = t.get("add", 0)
                lines.append(f".{'long' if w == 4 else 'quad'} {nm}" + (f"+{add}" if add else ""))
                it = _Item("data", pos[cur], w, data=bytes(w), dkind="word", sym=nm, how=how, addend=add, field=(0, w))
            elif d == "leb":
                nm, how = resolve(t["sym"], False)
                lines.append(f".{'s' if t.get('s') else 'u'}leb128 {nm}")
                it = _Item("data", pos[cur], 1, data=b"\0", dkind="sleb" if t.get("s") else "uleb", sym=nm, how=how,
                           addend=0, field=(0, 1))
            elif d == "align":
                lines.append(f".align {t['n']}")
                sections[cur].append(_Item("align", pos[cur], 0, n=t["n"]))
                continue
            else:
                raise BadSpec("directive")
            sections[cur].append(it)
            pos[cur] += it.size
            continue
        if "t2" in t:
            two = I.TWO_SYM.get(isa)
            if not two:
                raise BadSpec("two-operand template")
            name, att, itext, hexb, fields = two[t["t2"] % len(two)]
            text = itext if (intel and itext) else att
            if intel and not itext:
                name, att, itext, hexb, fields = two[0]
                text = itext
            n1, h1 = resolve(t["sym"], False)
            n2, h2 = resolve(t["sym2"], False)
            lines.append(text.replace("{s1}", n1).replace("{s2}", n2))
            data = bytes.fromhex(hexb)
            it = _Item("insn", pos[cur], len(data), data=data, ikind="ord", sym=n1, how=h1, addend=0, field=fields[0], tname=name)
            it.more = [_Item("operand", pos[cur], 0, sym=n2, how=h2, addend=0, field=fields[1], tname=name + "/imm")]
            sections[cur].append(it)
            pos[cur] += len(data)
            continue
        tpl = tab.get(t["t"])
        if tpl is None or not tpl.patch:
            raise BadSpec("template")
        if intel and tpl.name not in I.X64_INTEL:
            tpl = tab["nop"]
        symname = how = None
        if tpl.symfield is not None:
            symname, how = resolve(t["sym"], tpl.kind in ("jmp", "jcc", "call"))
        data = I.encode(isa, tpl, t.get("imm", 0))
        # data references (not branch targets) may carry an addend: sym+8
        add = t.get("add", 0) if (symname and tpl.kind == "ord") else 0
        if add < 0:
            raise BadSpec("negative addend")
        lines.append(I.render(isa, tpl, symname + (f"+{add}" if add else "") if symname else None, t.get("imm", 0), intel=intel))
        sections[cur].append(_Item("insn", pos[cur], len(data), data=data, ikind=tpl.kind, sym=symname, how=how,
                                   addend=add, field=tpl.symfield, tname=tpl.name))
        pos[cur] += len(data)
    if proc is not None:
        if cur != ".text":
            lines.append(".text")
        lines.append(".cfi_endproc")
        cfi_item(".cfi_endproc", [], group="end")
    return "\n".join(lines) + "\n", sections, labels, undef


def _nontrivial(sections):
    feats = set()
    nsec = sum(1 for s, items in sections.items() if any(i.kind in ("insn", "data") for i in items))
    if nsec >= 2:
        feats.add("sections")
    for items in sections.values():
        prev = None
        for it in items:
            if it.kind == "align":
                feats.add("align")
            if it.kind == "label" and prev is not None and prev.kind == "label":
                feats.add("labels-in-a-row")
            if it.kind == "label" and prev is not None and prev.kind == "insn" and prev.ikind != "ord":
                feats.add("label-after-terminator")
            if prev is not None and {it.kind, prev.kind} == {"insn", "data"}:
                feats.add("data-next-to-code")
            if it.kind == "cfi":
                feats.add("cfi")
            if it.kind == "data" and it.dkind in ("uleb", "sleb"):
                feats.add("leb128")
            if it.kind not in ("align", "cfi"):
                prev = it
    return feats


def _leb_reachable(sections, spec):
    """May control flow reach some LEB128 value?  It does at the entry of
    .text (unless trivially unreachable), directly after a call / conditional
    jump, under a label that a branch or call names, and when a label or
    .align (both start a new block with a fallthrough edge) separates it from
    preceding bytes that are, or may be, code that can fall through; a block
    with CFI directives attached is kept as code as well."""
    targets = {it.sym for items in sections.values() for it in items
               if it.kind == "insn" and it.ikind in ("jmp", "jcc", "call") and it.how == "own"}
    for sname, items in sections.items():
        real = [it for it in items if it.kind in ("insn", "data")]
        idx = {id(it): k for k, it in enumerate(items)}

        def labelled(it):
            return any(l.kind == "label" and l.pos == it.pos and l.name in targets for l in items)

        def boundary(k):
            lo, hi = idx[id(real[k - 1])], idx[id(real[k])]
            return any(x.kind in ("label", "align") for x in items[lo + 1:hi])

        code = []
        for k, it in enumerate(real):
            if it.kind == "insn":
                code.append(True)
            else:
                entry = k == 0 and sname in (".text", ".xtext") and not spec.get("unreach")
                after = k > 0 and code[k - 1] and (real[k - 1].kind == "data" or real[k - 1].ikind in ("ord", "jcc", "call", "icall"))
                has_cfi = any(x.kind == "cfi" and it.pos <= x.pos <= it.pos + it.size for x in items)
                code.append(bool(entry or labelled(it) or after or has_cfi))
        for k, it in enumerate(real):
            if not (it.kind == "data" and it.dkind in ("uleb", "sleb")):
                continue
            if k == 0 and sname in (".text", ".xtext") and not spec.get("unreach"):
                return True
            if labelled(it):
                return True
            # (a block that carries CFI directives stays a code block)
            if any(x.kind == "cfi" and x.pos in (it.pos, it.pos + 1) for x in items):
                return True
            if k > 0 and real[k - 1].kind == "insn" and real[k - 1].ikind in ("jcc", "call", "icall"):
                return True
            if k > 0 and boundary(k) and code[k - 1] and (real[k - 1].kind == "data" or real[k - 1].ikind == "ord"):
                return True
    return False


def evaluate(spec):
    import gtirb
    import mcasm

    from gtirb_rewriting.assembler import Assembler

    out = Outcome()
    try:
        isa, fmt = spec["isa"], spec["fmt"]
        if (isa, fmt) not in I.TRIPLES:
            raise BadSpec("pair")
        text, sections, labels, undef = _program(spec)
    except (KeyError, TypeError, IndexError) as e:
        raise BadSpec(repr(e))
    feats = _nontrivial(sections)
    out.nontrivial = len(feats) >= 2
    out.classes = [f"isa={isa}/{fmt}", "syntax=" + spec.get("syntax", "att"),
                   "unreachable" if spec.get("unreach") else "reachable"] + sorted("feat:" + f for f in feats)
    # target module
    ir = gtirb.IR()
    m = gtirb.Module(name="m", isa=I.gtirb_isa(isa), file_format=I.gtirb_fmt(fmt), ir=ir)
    m.byte_order = gtirb.Module.ByteOrder.Big if isa == "mips32" else gtirb.Module.ByteOrder.Little
    sec = gtirb.Section(name=".text", module=m)
    bi = gtirb.ByteInterval(contents=I.NOP[isa] * 4, address=0x1000, section=sec)
    cb = gtirb.CodeBlock(offset=0, size=len(I.NOP[isa]) * 2, byte_interval=bi)
    db = gtirb.DataBlock(offset=len(I.NOP[isa]) * 2, size=len(I.NOP[isa]) * 2, byte_interval=bi)
    modsyms = {"modfn": gtirb.Symbol(name="modfn", payload=cb, module=m),
               "moddata": gtirb.Symbol(name="moddata", payload=db, module=m),
               "modext": gtirb.Symbol(name="modext", payload=gtirb.ProxyBlock(module=m), module=m)}
    asm = Assembler(m, temp_symbol_suffix="_7", trivially_unreachable=bool(spec.get("unreach")),
                    allow_undef_symbols=True)
    try:
        asm.assemble(text, mcasm.X86Syntax.INTEL if spec.get("syntax") == "intel" else mcasm.X86Syntax.ATT)
        res = asm.finalize()
    except Exception as e:
        leb_in_code = _leb_reachable(sections, spec)
        if leb_in_code and type(e).__name__ == "UnsupportedAssemblyError" and "data type" in str(e):
            # a LEB128 value that control flow can reach cannot be represented
            # (documented rejection); only possible in the executable section
            out.classes.append("leb128-in-reachable-code-rejected")
            return out
        out.fail("C12.assembles", "raised:" + exc_kind(e), f"{e!r} for {text!r}"[:500])
        return out
    cfi_table = res.create_cfi_directives()
    cfi_blocks = {id(k.element_id) for k in cfi_table}
    rsyms = {s.name: s for s in res.symbols}
    # ---- per section -------------------------------------------------------
    for sname, items in sections.items():
        want = b"".join(i.data for i in items if i.kind in ("insn", "data"))
        rs = res.sections.get(sname)
        if rs is None:
            if want:
                out.fail("C12.bytes", "section-missing", sname)
            continue
        if bytes(rs.data) != want:
            out.fail("C12.bytes", "bytes-differ", f"{sname}: expected {want.hex()} got {bytes(rs.data).hex()} for {text!r}")
            continue
        # tiling
        posn = 0
        blocks = list(rs.blocks)
        for k, b in enumerate(blocks):
            if b.offset != posn:
                out.fail("C12.tiling", "gap-or-overlap", f"{sname}: block {k} at {b.offset}, expected {posn}")
                break
            if b.size == 0 and k != len(blocks) - 1:
                out.fail("C12.tiling", "empty-block-not-last", f"{sname}: block {k}")
            posn += b.size
        else:
            if posn != len(want):
                out.fail("C12.tiling", "blocks-do-not-cover-data", f"{sname}: {posn} of {len(want)}")
        if any(f.clause == "C12.tiling" for f in out.failures):
            continue

        def block_at(p, exact=False):
            for k, b in enumerate(blocks):
                if b.offset <= p < b.offset + b.size:
                    return k, b
            return None, None

        def block_starting(p):
            cands = [b for b in blocks if b.offset == p]
            return cands

        executable = gtirb.Section.Flag.Executable in rs.flags
        # terminators / instructions
        has_insn = {}
        ends_with = {}
        for it in items:
            if it.kind != "insn":
                continue
            k, b = block_at(it.pos)
            if b is None:
                out.fail("C12.tiling", "instruction-in-no-block", f"{it.tname} at {it.pos}")
                continue
            has_insn[k] = True
            if not isinstance(b, gtirb.CodeBlock):
                out.fail("C12.code-data", "instruction-in-data-block", f"{sname}: {it.tname} at {it.pos}", it.tname)
            if it.ikind != "ord":
                if it.pos + it.size != b.offset + b.size:
                    out.fail("C12.terminators", "transfer-not-last", f"{sname}: {it.tname} at {it.pos}, block ends at {b.offset + b.size}", it.ikind)
                    continue
                ends_with[k] = it
        # edges of every block
        for k, b in enumerate(blocks):
            if not isinstance(b, gtirb.CodeBlock):
                if any(True for _ in res.cfg.out_edges(b)) if hasattr(b, "uuid") and isinstance(b, gtirb.CfgNode) else False:
                    out.fail("C12.terminators", "edges-on-data-block", f"{sname}: block {k}")
                continue
            edges = list(res.cfg.out_edges(b))
            nxt = blocks[k + 1] if k + 1 < len(blocks) else None
            it = ends_with.get(k)
            kind = it.ikind if it is not None else None
            ft = [e for e in edges if e.label and e.label.type == gtirb.Edge.Type.Fallthrough]
            rest = [e for e in edges if e not in ft]
            falls = kind in (None, "jcc", "call", "icall")
            sig = kind or "no-terminator"
            if falls and nxt is not None and not has_insn.get(k):
                # a block made of data directives only: no demand on fallthrough,
                # but an edge that exists must lead to the next block
                if len(ft) > 1 or (ft and ft[0].target is not nxt):
                    out.fail("C12.terminators", "fallthrough", f"{sname}: data-only block {k} falls through elsewhere", sig)
            elif falls and nxt is not None and isinstance(nxt, gtirb.DataBlock):
                if ft:
                    out.fail("C12.terminators", "fallthrough-into-data", f"{sname}: block {k} ({sig})", sig)
            elif falls and nxt is not None:
                if len(ft) != 1 or ft[0].target is not nxt:
                    out.fail("C12.terminators", "fallthrough", f"{sname}: block {k} ({sig}) has {len(ft)} fallthrough edges", sig)
            elif ft:
                tgt = "next" if ft[0].target is nxt else "other"
                out.fail("C12.terminators", "unexpected-fallthrough", f"{sname}: block {k} ({sig}) falls through to {tgt}", sig)

            def target_ok(e, symname, how):
                if how == "own":
                    lsec, lpos, _t = labels[symname]
                    cands = [x for x in res.sections[lsec].blocks if x.offset == lpos]
                    return e.target in cands
                if how == "mod":
                    return e.target is modsyms[symname].referent
                s = rsyms.get(symname)
                return s is not None and e.target is s.referent and isinstance(e.target, gtirb.ProxyBlock)

            if kind in ("jmp", "jcc", "call"):
                et = gtirb.Edge.Type.Call if kind == "call" else gtirb.Edge.Type.Branch
                ok = (len(rest) == 1 and rest[0].label.type == et and bool(rest[0].label.direct)
                      and bool(rest[0].label.conditional) == (kind == "jcc") and target_ok(rest[0], it.sym, it.how))
                if not ok:
                    out.fail("C12.terminators", "direct-edge", f"{sname}: block {k} ({kind} {it.sym}): {[str(e.label) for e in rest]}", kind)
            elif kind in ("ijmp", "icall"):
                et = gtirb.Edge.Type.Call if kind == "icall" else gtirb.Edge.Type.Branch
                ok = (len(rest) == 1 and rest[0].label.type == et and not rest[0].label.direct
                      and isinstance(rest[0].target, gtirb.ProxyBlock) and rest[0].target in res.proxies)
                if not ok:
                    out.fail("C12.terminators", "indirect-edge", f"{sname}: block {k} ({kind}): {[str(e.label) for e in rest]}", kind)
            elif kind == "ret":
                ok = (len(rest) == 1 and rest[0].label.type == gtirb.Edge.Type.Return
                      and isinstance(rest[0].target, gtirb.ProxyBlock) and rest[0].target in res.proxies)
                if not ok:
                    out.fail("C12.terminators", "return-edge", f"{sname}: block {k}: {[str(e.label) for e in rest]}", kind)
            elif rest:
                out.fail("C12.terminators", "edges-without-terminator", f"{sname}: block {k}: {[str(e.label) for e in rest]}")
        # code / data classification
        for k, b in enumerate(blocks):
            if not b.size or has_insn.get(k) or id(b) in cfi_blocks:
                continue
            incoming = isinstance(b, gtirb.CodeBlock) and any(True for _ in res.cfg.in_edges(b))
            entry = (k == 0 and executable and not spec.get("unreach") and sname == ".text")
            if isinstance(b, gtirb.DataBlock):
                if entry:
                    out.fail("C12.code-data", "reachable-entry-bytes-became-data", f"{sname}: block {k}")
            else:
                if not incoming and not entry and not (k == 0 and executable and not spec.get("unreach")):
                    out.fail("C12.code-data", "data-only-block-without-incoming-edges-is-code", f"{sname}: block {k} of {text!r}"[:300])
        # LEB128 values: alone in a typed data block
        for it in items:
            if it.kind == "data" and it.dkind in ("uleb", "sleb"):
                k, b = block_at(it.pos)
                want_t = Assembler.Result.DataType.ULEB128 if it.dkind == "uleb" else Assembler.Result.DataType.SLEB128
                if b is None or not isinstance(b, gtirb.DataBlock) or (b.offset, b.size) != (it.pos, 1):
                    out.fail("C12.leb128", "not-its-own-data-block", f"{sname}+{it.pos}: {type(b).__name__} {getattr(b, 'offset', None)}+{getattr(b, 'size', None)}")
                elif rs.block_types.get(b) != want_t:
                    out.fail("C12.leb128", "block-type", f"{sname}+{it.pos}: {rs.block_types.get(b)} expected {want_t}")
        # CFI directives: at their listing position, in listing order, with
        # personality / LSDA / return column attached to their procedure's start
        wantcfi = {}
        procs, cur_p = [], None
        for it in items:
            if it.kind != "cfi":
                continue
            if it.group == "start":
                cur_p = {"start": it, "head": {}, "body": [], "end": None}
                procs.append(cur_p)
            elif it.group == "end":
                cur_p["end"] = it
                cur_p = None
            elif it.group in ("personality", "lsda", "return_column"):
                cur_p["head"][it.group] = it
            else:
                cur_p["body"].append(it)
        for pr in procs:
            p0 = pr["start"].pos
            wantcfi.setdefault(p0, []).append(pr["start"])
            for g in ("lsda", "personality", "return_column"):
                if g in pr["head"]:
                    wantcfi[p0].append(pr["head"][g])
            for it in pr["body"]:
                wantcfi.setdefault(it.pos, []).append(it)
            wantcfi.setdefault(pr["end"].pos, []).append(pr["end"])
        gotcfi = {}
        for k, b in enumerate(blocks):
            for disp, ds in sorted(cfi_table.get(b, {}).items()):
                for dname, dargs, dsym in ds:
                    gotcfi.setdefault(b.offset + disp, []).append((dname, list(dargs), dsym))
                if not (0 <= disp <= b.size):
                    out.fail("C12.cfi", "displacement-outside-block", f"{sname}: block {k} +{disp}")
        for p_ in sorted(set(wantcfi) | set(gotcfi)):
            w = wantcfi.get(p_, [])
            g_ = gotcfi.get(p_, [])
            wl = [(it.d[0], it.d[1]) for it in w]
            gl = [(n_, a_) for n_, a_, _s in g_]
            # personality / LSDA / return column may be listed in any order
            # inside their procedure's start group
            if sorted(map(repr, wl)) != sorted(map(repr, gl)):
                out.fail("C12.cfi", "directives-differ", f"{sname}+{p_}: expected {wl} got {gl}")
                continue
            body_w = [x for x in wl if x[0] not in (".cfi_lsda", ".cfi_personality", ".cfi_return_column")]
            body_g = [x for x in gl if x[0] not in (".cfi_lsda", ".cfi_personality", ".cfi_return_column")]
            if body_w != body_g:
                out.fail("C12.cfi", "order-differs", f"{sname}+{p_}: expected {body_w} got {body_g}")
            # pointer symbols: the k-th personality / LSDA wanted at this
            # position against the k-th one found (several procedures may
            # start at one position)
            for dname in (".cfi_personality", ".cfi_lsda"):
                ws = [it for it in w if it.d[0] == dname]
                gs = [s_ for n_, a_, s_ in g_ if n_ == dname]
                for it, got_sym in zip(ws, gs):
                    wsym = modsyms[it.d[2]] if it.how == "mod" else None
                    ok = isinstance(got_sym, gtirb.Symbol) and (
                        got_sym is wsym if wsym is not None else got_sym.name in (it.d[2], it.d[2] + "_7"))
                    if not ok:
                        out.fail("C12.cfi", "pointer-symbol", f"{sname}+{p_}: {dname} {it.d[2]}: {getattr(got_sym, 'name', got_sym)}")
        # alignment directives
        for it in items:
            if it.kind == "align":
                cands = [b for b in blocks if b.offset == it.pos and b in rs.alignment]
                if it.pos < len(want) and not cands:
                    out.fail("C12.align", "alignment-not-recorded", f"{sname}: .align {it.n} at {it.pos}")
        # symbolic operands
        wantexpr = {}
        for it in items:
            if it.kind in ("insn", "data") and getattr(it, "sym", None):
                wantexpr[it.pos + it.field[0]] = it
                for op in getattr(it, "more", ()):
                    wantexpr[op.pos + op.field[0]] = op
        got = dict(rs.symbolic_expressions)
        for p in sorted(set(got) | set(wantexpr)):
            if p not in wantexpr:
                out.fail("C12.operands", "unexpected-expression", f"{sname}+{p}: {got[p]}")
                continue
            it = wantexpr[p]
            if p not in got:
                out.fail("C12.operands", "missing-expression", f"{sname}+{p}: {it.sym}", it.how)
                continue
            e = got[p]
            if not isinstance(e, gtirb.SymAddrConst):
                out.fail("C12.operands", "wrong-type", f"{sname}+{p}: {e}")
                continue
            if it.how == "mod":
                wsym = modsyms[it.sym]
            else:
                cands = [s for n, s in rsyms.items() if n == it.sym or (n.startswith(it.sym + "_") and n[len(it.sym) + 1:].isdigit())]
                wsym = cands[0] if len(cands) == 1 else None
            if e.symbol is not wsym:
                out.fail("C12.operands", "wrong-symbol", f"{sname}+{p}: {e.symbol.name} expected {it.sym}", it.how)
            if e.offset != it.addend:
                out.fail("C12.operands", "addend", f"{sname}+{p}: {e.offset} expected {it.addend}")
            size = rs.symbolic_expression_sizes.get(p)
            if isa in ("x64", "ia32") or it.kind in ("data", "operand"):
                if size != it.field[1]:
                    out.fail("C12.operands", "size", f"{sname}+{p} ({getattr(it, 'tname', 'word')}): {size} expected {it.field[1]}")
            elif not (size and 1 <= size <= 8):
                out.fail("C12.operands", "size", f"{sname}+{p}: {size}")
            wattrs = set()
            if isa == "arm64" and getattr(it, "tname", "") == "load":
                wattrs = {gtirb.SymbolicExpression.Attribute.LO12}
            if set(e.attributes) != wattrs:
                out.fail("C12.operands", "attributes", f"{sname}+{p} ({getattr(it, 'tname', 'word')} {it.sym}): {set(e.attributes)} expected {wattrs}")
    # ---- labels ---------------------------------------------------------------
    for nm, (lsec, lpos, temp) in labels.items():
        cands = [s for n, s in rsyms.items() if n == nm or (temp and n == nm + "_7")]
        if len(cands) != 1:
            out.fail("C12.labels", "symbol-missing-or-duplicated", f"{nm}: {[s.name for s in cands]}")
            continue
        s = cands[0]
        if temp and s.name != nm + "_7":
            out.fail("C12.labels", "temporary-label-without-suffix", s.name)
        ref = s.referent
        blocks = res.sections[lsec].blocks if lsec in res.sections else []
        if ref not in blocks:
            out.fail("C12.labels", "referent-not-a-block-of-the-section", nm)
            continue
        p = ref.offset + (ref.size if s.at_end else 0)
        if p != lpos:
            out.fail("C12.labels", "wrong-position", f"{nm}: {p} expected {lpos}")
        elif s.at_end and lpos != sum(b.size for b in blocks):
            out.fail("C12.labels", "at-end-symbol-inside-section", f"{nm} at {lpos}")
    # undefined symbols: exactly one proxy-backed symbol each
    for nm in undef:
        cands = [s for s in res.symbols if s.name == nm or s.name == nm + "_7"]
        if len(cands) != 1 or not isinstance(cands[0].referent, gtirb.ProxyBlock) or cands[0].referent not in res.proxies:
            out.fail("C12.labels", "undefined-symbol-handling", f"{nm}: {len(cands)} symbols")
    if not out.failures:
        # (a result that refers to symbols of the target module cannot become an IR of its own: documented ValueError)
        uses_mod = any(getattr(it, "how", None) == "mod" or any(getattr(op, "how", None) == "mod" for op in getattr(it, "more", ()))
                       for items in sections.values() for it in items)
        if uses_mod:
            out.classes.append("create_ir-not-applicable(module-symbols)")
        else:
            out.classes.append("create_ir-compared")
            _check_create_ir(out, res)
    return out


def _check_create_ir(out, res):
    """Result.create_ir() is the other form in which the assembler hands over its output: the IR must hold exactly
    what the (already judged) Result holds, and serialise.  (Runs last: create_ir() adopts the Result's blocks.)"""
    import io

    import gtirb

    want_secs = {}
    for sname, s_ in res.sections.items():
        want_secs[sname] = {
            "data": bytes(s_.data), "flags": set(s_.flags),
            "blocks": sorted((type(b).__name__, b.offset, b.size) for b in s_.blocks),
            "exprs": {off: id(e) for off, e in s_.symbolic_expressions.items()},
            "sizes": dict(s_.symbolic_expression_sizes),
            "align": {id(b): a for b, a in s_.alignment.items()},
            "types": {id(b): t for b, t in s_.block_types.items()},
        }
    want_cfi = {(id(k.element_id), k.displacement): [(n_, list(a_), id(s_)) for n_, a_, s_ in v]
                for k, v in res.create_cfi_directives().items()}
    want_edges = sorted((id(e.source), id(e.target), str(e.label)) for e in res.cfg)
    want_syms = {id(s_) for s_ in res.symbols}
    want_proxies = {id(p_) for p_ in res.proxies}
    try:
        ir = res.create_ir()
    except Exception as e:
        out.fail("C12.create-ir", "raises:" + exc_kind(e), repr(e)[:300])
        return
    mods = list(ir.modules)
    if len(mods) != 1:
        out.fail("C12.create-ir", "module-count", str(len(mods)))
        return
    m = mods[0]
    got_secs = {sec.name: sec for sec in m.sections}
    for sname, w in want_secs.items():
        sec = got_secs.get(sname)
        if sec is None or len(sec.byte_intervals) != 1:
            out.fail("C12.create-ir", "section-missing-or-split", sname)
            continue
        bi = next(iter(sec.byte_intervals))
        if bytes(bi.contents) != w["data"] or bi.size != len(w["data"]):
            out.fail("C12.create-ir", "bytes-differ", sname)
        if set(sec.flags) != w["flags"]:
            out.fail("C12.create-ir", "flags-differ", f"{sname}: {sorted(f.name for f in sec.flags)}")
        if sorted((type(b).__name__, b.offset, b.size) for b in bi.blocks) != w["blocks"]:
            out.fail("C12.create-ir", "blocks-differ", sname)
        if {off: id(e) for off, e in bi.symbolic_expressions.items()} != w["exprs"]:
            out.fail("C12.create-ir", "expressions-differ", sname)
        sizes = m.aux_data.get("symbolicExpressionSizes")
        got_sizes = {k.displacement: v for k, v in (sizes.data.items() if sizes else []) if k.element_id is bi}
        if got_sizes != w["sizes"]:
            out.fail("C12.create-ir", "expression-sizes-differ", f"{sname}: {got_sizes} expected {w['sizes']}")
        al = m.aux_data.get("alignment")
        got_al = {id(b): a for b, a in (al.data.items() if al else []) if isinstance(b, gtirb.ByteBlock) and b.byte_interval is bi}
        if got_al != w["align"]:
            out.fail("C12.create-ir", "alignment-table-differs", sname)
        enc = m.aux_data.get("encodings")
        got_t = {id(b): t for b, t in (enc.data.items() if enc else []) if isinstance(b, gtirb.ByteBlock) and b.byte_interval is bi}
        if set(got_t) != set(w["types"]):
            out.fail("C12.create-ir", "block-type-table-differs", sname)
    extra = set(got_secs) - set(want_secs) - {".dynamic"}
    if extra:
        out.fail("C12.create-ir", "unexpected-sections", str(sorted(extra)))
    if {id(s_) for s_ in m.symbols} != want_syms:
        out.fail("C12.create-ir", "symbols-differ", "")
    if {id(p_) for p_ in m.proxies} != want_proxies:
        out.fail("C12.create-ir", "proxies-differ", "")
    if sorted((id(e.source), id(e.target), str(e.label)) for e in ir.cfg) != want_edges:
        out.fail("C12.create-ir", "cfg-differs", "")
    cfi = m.aux_data.get("cfiDirectives")
    got_cfi = {(id(k.element_id), k.displacement): [(n_, list(a_), id(s_)) for n_, a_, s_ in v]
               for k, v in (cfi.data.items() if cfi else [])}
    if got_cfi != want_cfi:
        out.fail("C12.create-ir", "cfi-table-differs", "")
    try:
        buf = io.BytesIO()
        ir.save_protobuf_file(buf)
        buf.seek(0)
        gtirb.IR.load_protobuf_file(buf)
    except Exception as e:
        out.fail("C12.create-ir", "does-not-serialise:" + type(e).__name__, repr(e)[:300])


def render(spec):
    try:
        text, sections, labels, undef = _program(spec)
        return {"isa": spec["isa"], "fmt": spec["fmt"], "syntax": spec.get("syntax"),
                "trivially_unreachable": spec.get("unreach"), "text": text.split("\n")}
    except Exception:
        return spec
