"""C09 - rewrite caches are transparent: batch equals one-at-a-time."""

import os

from .. import isa as I
from .. import listing as Lm
from .. import observe as Ob
from ..core import HarnessError, Outcome, exc_kind
from . import _rw, c01

FUZZ = {"quick": 0, "thorough": 3000}   # libFuzzer -runs per shard (slow target)
ID = "C09"
TECHNIQUE = ("property-based differential testing (Hypothesis): one apply() of all modifications vs one RewritingContext "
             "per modification in address order, compared through a UUID-free canonical dump; plus in-situ model checks "
             "of the rewrite caches at every step through guarded hooks (the cache state is snapshotted and restored around the "
             "queries so that they do not perturb the rewrite)")
RULE = ("cases as in C01-C03 (no alignment, no gaps) biased towards dependencies: later patches name / branch to / call "
        "labels whose blocks earlier modifications moved, split, joined or deleted; functions present so that the "
        "function and return-edge caches matter. Oracle 1: canonical_dump(batch) == canonical_dump(sequential) up to "
        "temporary-label suffixes. Oracle 2 (hooks before_assemble / after_modification): block ordering is a total "
        "order over exactly the live blocks consistent with their offsets; functions_by_block / is_entry_block agree "
        "with the function tables; the return-edge cache agrees with a CFG scan; reference-cache answers agree with a "
        "shadow model of direct assignments; every symbol a patch names has Symbol.referent equal to the cache's "
        "answer when the assembler runs. Non-trivial = a later modification's patch references a symbol whose "
        "referent an earlier modification of the same apply changed, or two modifications hit one block; distinct by "
        "spec hash.")
ASSUMPTIONS = [
    "sequential application re-locates each target through the listing model (section positions); cases where a target "
    "cannot be located inside one block are skipped (counted)",
    "block boundaries between ordinary instructions may differ between the two runs only in a separately reported bucket",
]


def calibrate():
    I.calibrate()
    import gtirb_rewriting._verif_hooks as H

    if not H.ENABLED:
        raise HarnessError("verification hooks are not enabled (GTIRB_REWRITING_VERIF)")


def strategy(tier):
    return Lm.case_st(tier, pairs=[p for p in I.PAIRS if p[0] != "mips32"] + [("x64", "elf")], ivs=True)


def budget(tier):
    return 12_000 if tier == "quick" else 200_000


def in_known_class(fid, spec, failure):
    case = Lm.Case(spec)
    if fid == "C01-call-at-section-end":
        return Lm.call_at_section_end(case)
    if fid == "C02-trailing-patch-label-at-block-end":
        return Lm.trailing_label_then_insert(case)
    return False


# ---------------------------------------------------------------------------
# oracle 2: cache checks at every hook event
# ---------------------------------------------------------------------------
class _Shadow:
    """direct-assignment model of symbol referents, fed by wrapped cache calls"""

    def __init__(self, module):
        self.ref = {}
        self.module = module
        for s in module.symbols:
            self.ref[s] = (s.referent, bool(s.at_end))

    def sync_new(self):
        for s in self.module.symbols:
            if s not in self.ref and s.referent is not None:
                self.ref[s] = (s.referent, bool(s.at_end))

    def retarget(self, block, to_block, at_end):
        for s, (r, e) in list(self.ref.items()):
            if r is block:
                self.ref[s] = (to_block, bool(at_end))

    def set(self, sym, referent, at_end):
        self.ref[sym] = (referent, bool(at_end))


def _check_caches(cache, shadow, event, patch_names):
    """returns a problem string or None (perturbs the reference cache: callers snapshot/restore)"""
    import gtirb

    m = cache.module
    ir = m.ir
    # -- block ordering
    for sec in m.sections:
        blocks = list(sec.byte_blocks)
        if not blocks:
            continue
        firsts = [b for b in blocks if cache.adjacent_blocks(b)[0] is None]
        seen = set()
        for f in firsts:
            cur = f
            prev_key = None
            while cur is not None:
                if id(cur) in seen:
                    return f"ordering: block visited twice in {sec.name}"
                seen.add(id(cur))
                if cur.byte_interval is None or cur.section is not sec:
                    return f"ordering: dead block linked in {sec.name}"
                key = (cur.byte_interval.address, cur.offset)
                endkey = (cur.byte_interval.address, cur.offset + cur.size)
                if prev_key is not None and cur.byte_interval.address == prev_key[0] and key < prev_key:
                    return f"ordering: {key} linked after {prev_key} in {sec.name}"
                prev_key = endkey
                p, n = cache.adjacent_blocks(cur)
                if n is not None and cache.adjacent_blocks(n)[0] is not cur:
                    return "ordering: next/prev links disagree"
                cur = n
        if len(seen) != len(blocks):
            return f"ordering: {len(seen)} linked of {len(blocks)} live blocks in {sec.name}"
    # -- functions
    fb = m.aux_data.get("functionBlocks")
    fe = m.aux_data.get("functionEntries")
    owner = {}
    if fb is not None:
        for u, bs in fb.data.items():
            for b in bs:
                owner[b] = u
    for b in m.code_blocks:
        if cache.functions_by_block.get(b) != owner.get(b):
            return f"functions_by_block disagrees with functionBlocks for a block at offset {b.offset}"
        want_entry = bool(fe is not None and owner.get(b) is not None and b in fe.data.get(owner[b], ()))
        if bool(cache.is_entry_block(b)) != want_entry:
            return "is_entry_block disagrees with functionEntries"
    for b in list(cache.functions_by_block):
        if b.byte_interval is None:
            return "functions_by_block holds a block that left the module"
    # -- return edges
    rc = cache.return_cache
    if ir.cfg is not rc:
        return "ir.cfg is not the return cache"
    scan = {}
    for e in set(rc):
        if e.label is not None and e.label.type == gtirb.Edge.Type.Return:
            scan.setdefault(e.source, set()).add(e)
    for b in m.code_blocks:
        want = scan.get(b, set())
        if rc.block_return_edges(b) != want or rc.any_return_edges(b) != bool(want):
            return "return cache disagrees with a CFG scan"
        if rc.block_proxy_return_edges(b) != {e for e in want if isinstance(e.target, gtirb.ProxyBlock)}:
            return "proxy return cache disagrees with a CFG scan"
    # -- references
    shadow.sync_new()
    for s, (want, at_end) in shadow.ref.items():
        if s.module is not m:
            continue
        if event == "before_assemble" and s.name in patch_names:
            if s.referent is not want:
                return f"assembler would read {s.name}.referent = {s.referent!r}, cache model says {want!r}"
        got = cache.reference_cache.get_referent(s)
        if got is not want:
            return f"reference cache: {s.name} -> {got!r}, direct-assignment model says {want!r}"
        if want is not None and isinstance(want, gtirb.ByteBlock) and bool(s.at_end) != at_end:
            return f"reference cache: {s.name}.at_end = {s.at_end}, model says {at_end}"
    return None


def _run_batch_with_hooks(case, built, out):
    import gtirb
    import gtirb_rewriting
    import gtirb_rewriting._verif_hooks as H
    from gtirb_rewriting._modify.cache import ReferenceCache

    shadow = _Shadow(built.module)
    problems = []
    events = [0]
    orig_retarget = ReferenceCache.retarget_references
    orig_set = ReferenceCache.set_referent

    def w_retarget(self, block, to_block, at_end):
        # referents assigned directly since the last call (split_block does that)
        for s_ in tuple(block.references):
            shadow.ref[s_] = (block, bool(s_.at_end))
        has = any(block.references) or block in self._references
        orig_retarget(self, block, to_block, at_end)
        if has:
            shadow.retarget(block, to_block, at_end)

    def w_set(self, symbol, referent, at_end):
        orig_set(self, symbol, referent, at_end)
        shadow.set(symbol, referent, at_end)

    texts = {}

    def cb(event, **kw):
        events[0] += 1
        if problems:
            return
        cache = kw["modify_cache"]
        names = set()
        if event == "before_assemble":
            t = texts.get(id(kw["patch"]), "")
            names = {s.name for s in built.module.symbols if s.name in t}
        # symbols whose referent was assigned directly (split_block does that)
        for s in built.module.symbols:
            if s.referent is not None and s not in cache.reference_cache._referents:
                shadow.ref[s] = (s.referent, bool(s.at_end))
        # The reference-cache queries mutate the cache (path compression,
        # indirect -> direct), so they run on the live object and the
        # complete reference state is restored afterwards: the rewrite
        # continues exactly as if nobody had looked.
        import copy

        rc = cache.reference_cache
        m = built.module
        memo = {}
        for s_ in m.symbols:
            memo[id(s_)] = s_
        for b_ in list(m.byte_blocks) + list(m.proxies):
            memo[id(b_)] = b_
        for b_ in list(rc._references):
            memo[id(b_)] = b_
        for node in rc._referents.values():
            p_ = node
            while not isinstance(p_, gtirb.Block):
                p_ = p_.parent
            memo[id(p_)] = p_
        saved = copy.deepcopy((rc._referents, rc._references), memo)
        saved_syms = [(s_, s_.referent, s_.at_end) for s_ in m.symbols]
        try:
            msg = _check_caches(cache, shadow, event, names)
            code = 3
        except Exception as e:  # noqa
            msg = "check raised " + repr(e)
            code = 4
        finally:
            rc._referents, rc._references = saved
            for s_, r_, e_ in saved_syms:
                if s_.referent is not r_:
                    s_.referent = r_
                if s_.at_end != e_:
                    s_.at_end = e_
        if msg:
            problems.append((event, msg[:900], code))

    ctx = gtirb_rewriting.RewritingContext(built.module, Lm.functions_of(built.module))

    # register with patches whose text we remember
    class TP(gtirb_rewriting.Patch):
        def __init__(self, text):
            super().__init__(gtirb_rewriting.Constraints())
            self.text = text
            texts[id(self)] = text

        def get_asm(self, c):
            return self.text

    for ed in sorted(case.edits, key=lambda e: e.reg):
        blk = built.blocks[ed.b]
        off = case.byte_off(ed.b, ed.i)
        ln = case.byte_off(ed.b, ed.i + ed.n) - off
        if ed.op == "insert":
            ctx.insert_at(blk, off, TP(case.patch_units(ed)[1]))
        elif ed.op == "replace":
            ctx.replace_at(blk, off, ln, TP(case.patch_units(ed)[1]))
        else:
            ctx.delete_at(blk, off, ln, retarget_to_proxy=ed.proxy)
    H.register(cb)
    ReferenceCache.retarget_references = w_retarget
    ReferenceCache.set_referent = w_set
    err = None
    try:
        ctx.apply()
    except Exception as e:
        err = e
    finally:
        H.unregister(cb)
        ReferenceCache.retarget_references = orig_retarget
        ReferenceCache.set_referent = orig_set
    return err, problems, events[0]


# ---------------------------------------------------------------------------
# oracle 1: sequential application
# ---------------------------------------------------------------------------
def _apply_order(case):
    """the order apply() uses: blocks by address, then (offset, registration)"""
    return sorted(case.edits, key=lambda e: (e.b, e.i, e.reg))


def _locate(case, built, done, ed):
    """(block, offset, length) for edit `ed` in the current IR, or None"""
    sub = Lm.Case.__new__(Lm.Case)
    sub.__dict__.update(case.__dict__)
    sub.edits = list(done)
    exp = Lm.Expected(sub)
    obs = Lm.Observed(built)
    blk = case.blocks[ed.b]
    si = blk.sec
    # position of the anchor in the partially edited listing
    pos_of = {}
    for e in exp.insns[si]:
        pos_of.setdefault(e.unit.origin, e.pos)
    nu = len(blk.units)
    blocks = obs.code_blocks(si)
    if ed.i < nu:
        key = ("orig", ed.b, ed.i)
        if key not in pos_of:
            return None
        p = pos_of[key]
        host = [(bp, sz, b) for (bp, sz, b) in blocks if bp <= p < bp + sz]
        if len(host) != 1:
            return None
        bp, sz, b = host[0]
        ln = case.byte_off(ed.b, ed.i + ed.n) - case.byte_off(ed.b, ed.i)
        if p + ln > bp + sz:
            return None
        return b, p - bp, ln
    # block end: the position after the last surviving thing of the block
    last = None
    for e in exp.insns[si]:
        o = e.unit.origin
        if (o[0] == "orig" and o[1] == ed.b) or (o[0] == "patch" and any(d.reg == o[1] and d.b == ed.b for d in done)):
            last = e
    if last is None:
        return None
    p = last.pos + len(last.unit.data)
    host = [(bp, sz, b) for (bp, sz, b) in blocks if bp < p <= bp + sz and sz]
    if len(host) != 1:
        return None
    bp, sz, b = host[0]
    if p != bp + sz:
        return None
    return b, sz, 0


def _run_sequential(case, built):
    import gtirb_rewriting

    done = []
    for ed in _apply_order(case):
        loc = _locate(case, built, done, ed)
        if loc is None:
            return "unlocatable", None
        b, off, ln = loc
        ctx = gtirb_rewriting.RewritingContext(built.module, Lm.functions_of(built.module))
        if ed.op == "insert":
            ctx.insert_at(b, off, Lm.make_patch(case, ed))
        elif ed.op == "replace":
            ctx.replace_at(b, off, ln, Lm.make_patch(case, ed))
        else:
            whole = off == 0 and ln == b.size
            ctx.delete_at(b, off, ln, retarget_to_proxy=ed.proxy and whole)
        try:
            ctx.apply()
        except Exception as e:
            return "raised", e
        done.append(ed)
    return "ok", None


def _depends(case, exp):
    """a later patch references a label of a block an earlier edit touched"""
    order = _apply_order(case)
    touched = set()
    for ed in order:
        if ed.patch:
            items, _ = case.patch_units(ed)
            for it in items:
                if isinstance(it, Lm.Unit) and it.sym in case.label_block and case.label_block[it.sym][0] in touched:
                    return True
        touched.add(ed.b)
    return False


def evaluate(spec):
    out = Outcome()
    case = Lm.Case(spec)
    exp = Lm.Expected(case)
    if Lm.out_of_domain(case, exp):
        out.excluded = "patch-branch-to-noncode-position"
        return out
    out.classes = c01.classes(case, exp)
    per = {}
    for e in case.edits:
        per[e.b] = per.get(e.b, 0) + 1
    dep = _depends(case, exp)
    out.nontrivial = dep or any(v >= 2 for v in per.values())
    if dep:
        out.classes.append("later-patch-references-touched-label")
    # run A with hooks
    a = Lm.build(case)
    err_a, problems, nevents = _run_batch_with_hooks(case, a, out)
    out.classes.append(f"events={min(nevents, 8)}")
    for event, msg, code in problems[:1]:
        kind = "cache-disagrees" if code == 3 else "check-crashed"
        area = msg.split(":")[0].split(" ")[0]
        out.fail("C09.consult", kind, f"at {event}: {msg}", area)
    # run B
    b = Lm.build(case)
    status, err_b = _run_sequential(case, b)
    if status == "unlocatable":
        out.classes.append("sequential-unlocatable")
        if err_a is not None:
            out.fail("C09.batch-vs-seq", "batch-raised:" + exc_kind(err_a), repr(err_a)[:300])
        return out
    if (err_a is None) != (err_b is None):
        who = "batch" if err_a is not None else "sequential"
        e = err_a if err_a is not None else err_b
        out.fail("C09.batch-vs-seq", f"only-{who}-raised:" + exc_kind(e), repr(e)[:300])
        return out
    if err_a is not None:
        out.classes.append("both-raised")
        return out
    Lm.pack_layout(a)
    Lm.pack_layout(b)
    da = Ob.canonical_dump(a.ir, rename_temps=True)
    db = Ob.canonical_dump(b.ir, rename_temps=True)
    if da != db:
        # boundaries only?
        sa = {k: v for k, v in da.items() if k not in ("sections", "cfg", "aux", "symbols")}
        bytes_a = [[iv["bytes"] for iv in s["intervals"]] for s in da["sections"]]
        bytes_b = [[iv["bytes"] for iv in s["intervals"]] for s in db["sections"]]
        kind = "dump-differs" if bytes_a == bytes_b else "bytes-differ"
        d = Ob.first_diff(da, db)
        area = (d or "").split("/")[1].split("[")[0] if d else ""
        out.fail("C09.batch-vs-seq", kind, d, area)
    return out


render = _rw.render
