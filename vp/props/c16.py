"""C16 - patch prologue/epilogue make the patch transparent."""

import hashlib
import itertools

from hypothesis import strategies as st

from .. import isa as I
from ..core import BadSpec, HarnessError, Outcome, Recorder, exc_kind
from ..refmodels import cpu as CPU

ID = "C16"
TECHNIQUE = ("property-based testing (Hypothesis) plus grid enumeration: the prologue/epilogue generated for a Constraints "
             "value is assembled, decoded with capstone and executed on a small concrete emulator with the patch body "
             "modelled as havoc; the machine state after the epilogue is compared with the state before the prologue")
RULE = ("a case is (ABI in x86-64 ELF/PE, IA32 PE, ARM64 ELF, MIPS32 ELF) x Constraints (subset of clobbered registers in "
        "any sub-register spelling, clobbers_flags, align_stack, preserve_caller_saved_registers, scratch count 0..max+1, "
        "reads_registers) x leaf/non-leaf x initial stack pointer residue x random register file. Prologue and epilogue "
        "are executed around a havoc body (declared/scratch/caller-saved registers and declared flags get fresh values, "
        "memory below the body's stack pointer is scribbled). Checked: SP and every register restored (flags when "
        "declared), no store at/above the original SP nor into the red zone of a leaf function, loads only from slots the "
        "prologue stored, scratch registers distinct / as many as requested / not read / not reserved, "
        "stack_adjustment == real displacement, aligned body SP with align_stack, ValueError/NotImplementedError exactly "
        "for unsatisfiable requests. Non-trivial = at least two of the constraint features are on; distinct by spec hash.")
ASSUMPTIONS = [
    "caller-saved registers: at least the volatile integer registers of the platform ABI documents (System V x86-64: rax rcx "
    "rdx rsi rdi r8-r11; Microsoft x64: rax rcx rdx r8-r11; IA32 cdecl/stdcall: eax ecx edx; AAPCS64: x0-x15 and lr - x16-x18 "
    "are platform registers the library documents it never touches; MIPS o32: v0-v1 a0-a3 t0-t9), plus whatever else the ABI "
    "object's own table lists",
    "the emulator implements exactly the instruction forms the ABIs emit; anything else is a harness error",
    "flags are not required to survive when not declared clobbered",
    "ARM64 requires a 16-byte aligned SP on entry (hardware rule for SP-based addressing)",
]
ABIS = [("x64", "elf"), ("x64", "pe"), ("ia32", "pe"), ("arm64", "elf"), ("mips32", "elf")]
REGS = {
    "x64": ["rax", "rbx", "rcx", "rdx", "rsi", "rdi", "r8", "r9", "r10", "r11", "r12", "r13", "r14", "r15"],
    "ia32": ["eax", "ebx", "ecx", "edx", "esi", "edi"],
    "arm64": [f"x{i}" for i in range(31)],
    "mips32": [f"t{i}" for i in range(10)] + [f"a{i}" for i in range(4)] + [f"s{i}" for i in range(8)] + ["v0", "v1", "fp", "ra"],
}
SCRATCH_POOL = {
    "x64": REGS["x64"], "ia32": REGS["ia32"],
    "arm64": [f"x{i}" for i in range(29) if i not in (16, 17, 18)],
    "mips32": [f"t{i}" for i in range(8)],
}
SPELL = {
    "x64": {r: [r] for r in REGS["x64"]},
    "ia32": {r: [r] for r in REGS["ia32"]},
}
for _r, _alts in (("rax", ["eax", "ax", "al", "ah"]), ("rbx", ["ebx", "bl"]), ("rcx", ["ecx", "cx", "cl"]), ("rdx", ["edx", "dh"]),
                  ("rsi", ["esi", "sil"]), ("rdi", ["edi", "di"]), ("r8", ["r8d", "r8b"]), ("r9", ["r9w"]), ("r12", ["r12d"])):
    SPELL["x64"][_r] += _alts
for _r, _alts in (("eax", ["ax", "al", "ah"]), ("ebx", ["bx", "bl"]), ("ecx", ["cl"]), ("edx", ["dx"]), ("esi", ["si"]), ("edi", ["di"])):
    SPELL["ia32"][_r] += _alts
RED_ZONE = {("x64", "elf"): 128}
CC_ALIGN = {("x64", "elf"): 16, ("x64", "pe"): 16, ("ia32", "pe"): 4, ("arm64", "elf"): 16, ("mips32", "elf"): 8}
SP_RESIDUES = {"x64": [0, 8, 0, 8, 4, 1, 12], "ia32": [0, 4, 8, 12], "arm64": [0], "mips32": [0, 8]}


VOLATILE = {
    ("x64", "elf"): ["rax", "rcx", "rdx", "rsi", "rdi", "r8", "r9", "r10", "r11"],
    ("x64", "pe"): ["rax", "rcx", "rdx", "r8", "r9", "r10", "r11"],
    ("ia32", "pe"): ["eax", "ecx", "edx"],
    ("arm64", "elf"): [f"x{i}" for i in range(16)] + ["x30"],
    ("mips32", "elf"): ["v0", "v1", "a0", "a1", "a2", "a3"] + [f"t{i}" for i in range(10)],
}


def calibrate():
    I.calibrate()


_i = st.integers(0, 40)


def strategy(tier):
    return st.fixed_dictionaries({
        "abi": st.integers(0, 4),
        "clobbers": st.lists(st.tuples(_i, _i).map(list), max_size=5),
        "flags": st.booleans(), "align": st.sampled_from([False, False, True]),
        "pcs": st.sampled_from([False, False, True]),
        "scratch": st.sampled_from([0, 0, 1, 2, 3, 5, 99]),
        "reads": st.lists(st.tuples(_i, _i).map(list), max_size=2),
        "leaf": st.booleans(), "sp": _i, "seed": st.integers(0, 1000),
    })


def budget(tier):
    return 15_000 if tier == "quick" else 600_000


def _val(seed, name, word):
    h = hashlib.blake2b(f"{seed}:{name}".encode(), digest_size=8).digest()
    return int.from_bytes(h, "little") & ((1 << (8 * word)) - 1)


class _Desc:
    pass


def _names(isa, picks):
    """(canonical register, spelling): sub-register names and - register names are
    case-insensitive in the API - upper / capitalised spellings"""
    out = []
    for a, b in picks:
        r = REGS[isa][a % len(REGS[isa])]
        sp = SPELL.get(isa, {}).get(r, [r])
        name = sp[b % len(sp)]
        case = (b // max(1, len(sp))) % 3
        if case == 1:
            name = name.upper()
        elif case == 2:
            name = name.capitalize()
        out.append((r, name))
    return out


def evaluate(spec):
    import gtirb

    from gtirb_rewriting.abi import ABI
    from gtirb_rewriting.assembler import Assembler
    from gtirb_rewriting.assembly import Constraints

    out = Outcome()
    try:
        isa, fmt = ABIS[spec["abi"] % len(ABIS)]
        clob = _names(isa, spec["clobbers"])
        reads = _names(isa, spec["reads"])
        scratch_req = spec["scratch"]
        leaf = bool(spec["leaf"])
        flags, align, pcs = bool(spec["flags"]), bool(spec["align"]), bool(spec["pcs"])
        seed = spec["seed"]
        res = SP_RESIDUES[isa][spec["sp"] % len(SP_RESIDUES[isa])]
    except (KeyError, TypeError, IndexError) as e:
        raise BadSpec(repr(e))
    word = 8 if isa in ("x64", "arm64") else 4
    pool = SCRATCH_POOL[isa]
    clob_set = {r for r, _ in clob}
    read_set = {r for r, _ in reads}
    avail = [r for r in pool if r not in clob_set and r not in read_set]
    if scratch_req == 99:
        scratch_req = len(avail) + 1
    feats = sum([bool(clob), flags, align, pcs, scratch_req > 0, bool(reads)])
    out.nontrivial = feats >= 2
    out.classes = [f"abi={isa}/{fmt}", "leaf" if leaf else "non-leaf"] + [n for n, v in (
        ("clobbers", clob), ("flags", flags), ("align_stack", align), ("preserve_caller_saved", pcs),
        ("scratch", scratch_req), ("reads", reads)) if v]
    infeasible = None
    if scratch_req > len(avail):
        infeasible = "too-many-scratch"
    elif isa == "mips32" and align:
        infeasible = "mips-align"
    elif isa == "arm64" and flags and scratch_req == 0 and not avail:
        infeasible = "no-register-for-flags"
    desc = _Desc()
    desc.isa, desc.file_format = I.gtirb_isa(isa), I.gtirb_fmt(fmt)
    abi = ABI.get(desc)
    cons = Constraints(clobbers_flags=flags, clobbers_registers={s for _, s in clob}, scratch_registers=scratch_req,
                       reads_registers={s for _, s in reads}, align_stack=align, preserve_caller_saved_registers=pcs)
    try:
        alloc = abi._allocate_patch_registers(cons)
        prologue, epilogue, adj = abi._create_prologue_and_epilogue(cons, alloc, leaf)
        prologue, epilogue = list(prologue), list(epilogue)
    except (ValueError, NotImplementedError) as e:
        out.classes.append("rejected")
        if infeasible is None:
            out.fail("C16.feasible", "raises-on-satisfiable-constraints", f"{type(e).__name__}: {e}; clobbers {sorted(clob_set)} reads {sorted(read_set)} scratch {scratch_req}",
                     "reads-overlap" if (read_set & clob_set or read_set - set(pool)) else "other")
        return out
    except Exception as e:
        out.fail("C16.feasible", "wrong-exception:" + exc_kind(e), repr(e)[:300], infeasible or "feasible")
        return out
    if infeasible is not None:
        out.fail("C16.feasible", "unsatisfiable-request-accepted", infeasible)
        return out
    # ---- scratch registers -------------------------------------------------
    def canon(reg):
        n = reg.name.lower()
        if isa in ("x64", "ia32"):
            return CPU.x86_canon(n, isa)
        return {"fp": "x29", "lr": "x30"}.get(n, n) if isa == "arm64" else n

    scratch = [canon(r) for r in alloc.scratch_registers]
    if len(scratch) != scratch_req or len(set(scratch)) != len(scratch):
        out.fail("C16.scratch", "count-or-duplicates", f"{scratch} for {scratch_req}")
    if set(scratch) & read_set:
        out.fail("C16.scratch", "scratch-is-read-register", f"{scratch} reads {sorted(read_set)}")
    if not set(scratch) <= set(pool):
        out.fail("C16.scratch", "reserved-register-as-scratch", f"{scratch}")
    # ---- assemble ------------------------------------------------------------
    ir = gtirb.IR()
    m = gtirb.Module(name="m", isa=desc.isa, file_format=desc.file_format, ir=ir)
    m.byte_order = gtirb.Module.ByteOrder.Big if isa == "mips32" else gtirb.Module.ByteOrder.Little

    def asm(snips):
        if not snips:
            return b""
        a = Assembler(m)
        for sn in snips:
            a.assemble(sn.code, sn.x86_syntax)
        return bytes(a.finalize().text_section.data)

    try:
        pbytes, ebytes = asm(prologue), asm(epilogue)
    except Exception as e:
        out.fail("C16.assembles", "snippet-does-not-assemble:" + exc_kind(e), repr(e)[:300])
        return out
    # ---- emulate ---------------------------------------------------------------
    sp0 = 0x7FFF0000 + res
    init = {r: _val(seed, r, word) for r in REGS[isa]}
    if isa == "x64":
        init["rbp"] = _val(seed, "rbp", 8)
    mach = CPU.Machine(isa, init, sp0, word)
    emu = CPU.emulator(isa)
    if isa == "mips32":
        flags = False   # MIPS32 has no condition flags
    flags0 = mach.flags
    try:
        emu.run(mach, pbytes)
    except CPU.Fault as e:
        out.fail("C16.execution", "machine-fault-in-prologue", str(e))
        return out
    except CPU.Unknown as e:
        raise HarnessError(f"emulator does not know an instruction of the prologue: {e}")
    sp_body = mach.sp
    if adj is not None and sp0 - sp_body != adj:
        out.fail("C16.stack-adjustment", "reported-differs-from-real", f"reported {adj}, real {sp0 - sp_body}")
    if align and sp_body % CC_ALIGN[(isa, fmt)]:
        out.fail("C16.align", "body-runs-with-misaligned-stack", f"sp {hex(sp_body)} (entry {hex(sp0)})")
    # havoc
    # the platform ABI's volatile integer registers (reference minimum, typed
    # in from the ABI documents) united with the library's own table
    lib_caller_saved = ({canon(r) for r in abi.caller_saved_registers()} | set(VOLATILE[(isa, fmt)])) if pcs else set()
    havoc = set(clob_set) | set(scratch) | lib_caller_saved
    for r in havoc:
        mach.regs[r] = ("havoc", r)
    if flags:
        mach.flags = CPU.fresh()
    mach.scribble_below_sp()
    mach.phase = "epilogue"
    try:
        emu.run(mach, ebytes)
    except CPU.Fault as e:
        out.fail("C16.execution", "machine-fault-in-epilogue", str(e))
        return out
    except CPU.Unknown as e:
        raise HarnessError(f"emulator does not know an instruction of the epilogue: {e}")
    # ---- oracle -------------------------------------------------------------------
    if mach.sp != sp0:
        out.fail("C16.restore", "stack-pointer", f"{hex(mach.sp)} != {hex(sp0)}")
    for r, v in init.items():
        if mach.regs.get(r) != v:
            kind = "declared" if r in clob_set else "scratch" if r in scratch else "caller-saved" if r in lib_caller_saved else "undeclared"
            out.fail("C16.restore", "register-not-restored", f"{r} ({kind}): {mach.regs.get(r)!r}", kind)
            break
    if flags and mach.flags != flags0:
        out.fail("C16.restore", "flags-not-restored", "")
    rz = RED_ZONE.get((isa, fmt), 0)
    for (a, size, phase) in mach.stores:
        if a + size > sp0:
            out.fail("C16.memory", "store-at-or-above-original-sp", f"{hex(a)} (sp0 {hex(sp0)}) in {phase}")
            break
        if leaf and rz and a + size > sp0 - rz:
            out.fail("C16.memory", "store-into-red-zone", f"{hex(a)} is {sp0 - a} below sp0, in {phase}")
            break
    for (a, size, phase, origin) in mach.loads:
        if origin != "prologue":
            out.fail("C16.memory", "load-of-slot-it-did-not-write", f"{hex(a)} in {phase}: origin {origin}")
            break
    return out


def render(spec):
    try:
        isa, fmt = ABIS[spec["abi"] % len(ABIS)]
        return {"abi": f"{isa}/{fmt}", "clobbers": [s for _, s in _names(isa, spec["clobbers"])],
                "reads": [s for _, s in _names(isa, spec["reads"])], "clobbers_flags": spec["flags"],
                "align_stack": spec["align"], "preserve_caller_saved_registers": spec["pcs"],
                "scratch_registers": spec["scratch"], "leaf": spec["leaf"], "sp_residue": spec["sp"]}
    except Exception:
        return spec


# ---------------------------------------------------------------------------
# grid enumeration: all singletons and pairs of clobbered registers x flags x
# align x caller-saved x leaf (quick); all subsets up to size 3 in thorough
# ---------------------------------------------------------------------------
def _grid_chunk(args):
    from ..core import setup_repo_path

    setup_repo_path()
    abi_idx, subsets = args
    rec = Recorder()
    me = __import__("vp.props.c16", fromlist=["x"])
    for sub in subsets:
        for flags, align, pcs, leaf in itertools.product([False, True], repeat=4):
            for scratch in (0, 2):
                rec.run(me, {"abi": abi_idx, "clobbers": [[i, 0] for i in sub], "flags": flags, "align": align,
                             "pcs": pcs, "scratch": scratch, "reads": [], "leaf": leaf, "sp": 1, "seed": 7})
    return rec.to_dict()


def extra(tier, seed, jobs):
    from ..core import pool_map

    tasks = []
    for abi_idx, (isa, fmt) in enumerate(ABIS):
        n = len(REGS[isa])
        maxk = 2 if tier == "quick" else 3
        subsets = [s for k in range(0, maxk + 1) for s in itertools.combinations(range(n), k)]
        if tier == "quick" and len(subsets) > 140:
            subsets = subsets[::max(1, len(subsets) // 140)]
        step = max(1, len(subsets) // 4)
        for i in range(0, len(subsets), step):
            tasks.append((abi_idx, subsets[i:i + step]))
    parts = pool_map(_grid_chunk, tasks, jobs)
    r = Recorder()
    r.exhaustive_parts.append("grid: clobber subsets up to size %d (sampled in quick for large ABIs) x flags x align x "
                              "caller-saved x leaf x scratch in {0,2}, all five ABIs" % (2 if tier == "quick" else 3))
    parts.append(r.to_dict())
    return parts
