"""C06 - function tables keep describing the same code."""

from .. import isa as I
from .. import listing as Lm
from . import _rw

ID = "C06"
TECHNIQUE = ("property-based testing (Hypothesis) against the listing reference model: functionBlocks/Entries/Names "
             "are flattened to per-instruction function attribution and compared with the edited listing")
RULE = ("cases as in C01 with 0-4 functions per code section (adjacent, interleaved with function-less code and data, "
        "multi-entry), edits at function boundaries and whole-block / whole-function deletions (with and without "
        "retarget_to_proxy), plus 0-2 functions added with register_insert_function (single- and multi-block bodies: in all "
        "three tables with their symbol as name and entry, all inserted code blocks and the exact body bytes). After apply(): every surviving instruction belongs to the function it belonged to, patch "
        "code to the function of the block it was inserted into, data to none; no block in two functions; entries are a "
        "subset of blocks; the three tables have the same keys; functions without instructions are gone; entry "
        "promotion only within the same function. Non-trivial = an edit touches the first or last block of a function "
        "or a whole function disappears; distinct by spec hash.")
ASSUMPTIONS = [
    "functions are identified by the name of their functionNames symbol",
    "a zero-sized block that legitimately remains (Deletion.md) may stay listed in its function",
]


def calibrate():
    I.calibrate()


def strategy(tier):
    from hypothesis import strategies as st

    nf = st.lists(st.fixed_dictionaries({"body": st.lists(st.sampled_from(["nop", "xor", "push", "mark"]), min_size=1, max_size=3),
                                         "label": st.booleans()}), max_size=2)
    return st.tuples(Lm.case_st(tier, ivs=True), nf).map(lambda t: {**t[0], "newfuncs": t[1]})


def budget(tier):
    return 30_000 if tier == "quick" else 400_000


def _boundary(case, exp):
    if not case.funcs:
        return False
    for f, idxs in case.funcs.items():
        edge = {idxs[0], idxs[-1]}
        if any(e.b in edge for e in case.edits):
            return True
        if all(g in exp.deleted_blocks for g in idxs):
            return True
    return False


def evaluate(spec):
    import gtirb

    import gtirb_rewriting as gr

    newfuncs = spec.get("newfuncs") or []
    new_syms = {}
    new_bytes = {}

    def pre_apply(ctx, built):
        case0 = built.case
        if case0.isa == "mips32" or "ret" not in case0.tab:
            return
        for k, nf in enumerate(newfuncs):
            lines = [I.render(case0.isa, case0.tab[n], None, 5) for n in nf["body"]]
            if nf.get("label"):
                lines.insert(1 if len(lines) > 1 else 0, f"nfl{k}:")
            lines.append(I.render(case0.isa, case0.tab["ret"]))
            new_bytes[f"newfn{k}"] = b"".join(I.encode(case0.isa, case0.tab[n], imm=5) for n in nf["body"]) + I.encode(case0.isa, case0.tab["ret"])
            text = "\n".join(lines) + "\n"
            patch = gr.Patch.from_function(lambda ctx_, text=text: text, gr.Constraints())
            new_syms[f"newfn{k}"] = ctx.register_insert_function(f"newfn{k}", patch)

    def skip():
        return {s_.referent.byte_interval for s_ in new_syms.values()
                if isinstance(s_.referent, gtirb.CodeBlock) and s_.referent.byte_interval is not None}

    out, r = _rw.start(spec, pre_apply=pre_apply, skip_intervals=skip)
    if r is None:
        return out
    case, exp, obs, m = r.case, r.exp, r.obs, r.built.module
    if new_syms:
        out.classes.append("register_insert_function")
        out.nontrivial = True
    if not case.funcs:
        out.classes.append("no-functions")
    out.nontrivial = _boundary(case, exp)
    fb = m.aux_data.get("functionBlocks")
    fe = m.aux_data.get("functionEntries")
    fn = m.aux_data.get("functionNames")
    # functions inserted with register_insert_function
    for name, sym in new_syms.items():
        if fb is None or fe is None or fn is None:
            out.fail("C06.inserted-function", "tables-missing", name)
            continue
        us = [u for u, s_ in fn.data.items() if s_ is sym]
        if len(us) != 1:
            out.fail("C06.inserted-function", "not-exactly-one-functionNames-entry", f"{name}: {len(us)}")
            continue
        u = us[0]
        ent = fe.data.get(u, set())
        blks = fb.data.get(u, set())
        ref = sym.referent
        if not isinstance(ref, gtirb.CodeBlock) or ref.byte_interval is None or ref.module is not m:
            out.fail("C06.inserted-function", "symbol-not-on-live-code-block", name)
            continue
        if set(ent) != {ref}:
            out.fail("C06.inserted-function", "entry-is-not-the-symbols-block", f"{name}: {len(ent)} entries")
        if not set(ent) <= set(blks):
            out.fail("C06.inserted-function", "entry-not-in-blocks", name)
        # every block of the inserted code belongs to the function
        bi_ = ref.byte_interval
        mine = [b for b in bi_.blocks if isinstance(b, gtirb.CodeBlock)]
        if bytes(bi_.contents) != new_bytes[name]:
            out.fail("C06.inserted-function", "body-bytes", f"{name}: {bytes(bi_.contents).hex()} expected {new_bytes[name].hex()}")
        if set(mine) != set(blks):
            out.fail("C06.inserted-function", "function-blocks-differ-from-inserted-code",
                     f"{name}: {len(blks)} in table, {len(mine)} code blocks inserted")
    if not case.funcs:
        for t in (fb, fe, fn):
            if t is not None and any(u not in [x for x, s_ in (fn.data.items() if fn else []) if s_ in new_syms.values()] for u in t.data):
                out.fail("C06.tables", "function-appeared", str(t.data)[:200])
        return out
    fb, fe, fn = fb.data, fe.data, fn.data
    if not (set(fb) == set(fe) == set(fn)):
        out.fail("C06.tables", "key-sets-differ",
                 f"blocks {len(fb)} entries {len(fe)} names {len(fn)}")
    owner = {}
    name_of = {}
    for u, sym in fn.items():
        name_of[u] = sym.name if isinstance(sym, gtirb.Symbol) else str(sym)
        if isinstance(sym, gtirb.Symbol) and sym.module is not m:
            out.fail("C06.tables", "name-symbol-not-in-module", name_of[u])
    for u, blocks in fb.items():
        for b in blocks:
            if not isinstance(b, gtirb.CodeBlock):
                out.fail("C06.tables", "non-code-block-in-function", f"{type(b).__name__}")
                continue
            if b.byte_interval is None or b.module is not m:
                out.fail("C06.tables", "dead-block-in-function", name_of.get(u, "?"))
                continue
            if id(b) in owner and owner[id(b)] != u:
                out.fail("C06.tables", "block-in-two-functions", "")
            owner[id(b)] = u
    for u, blocks in fe.items():
        for b in blocks:
            if b not in fb.get(u, ()):
                out.fail("C06.tables", "entry-not-in-blocks", name_of.get(u, "?"))
    # per-instruction attribution
    surviving = {}
    for si, insns in enumerate(exp.insns):
        cbs = [(p, sz, b) for (p, sz, b) in obs.code_blocks(si)]
        for e in insns:
            u = e.unit
            host = [b for (p, sz, b) in cbs if p <= e.pos < p + sz]
            funcs = {name_of.get(owner[id(b)], "?") for b in host if id(b) in owner}
            want = {u.func} if (u.func and u.kind != "data") else set()
            if u.func:
                surviving[u.func] = True
            if funcs != want:
                out.fail("C06.attribution", "wrong-function",
                         f"{u.origin} at section {si}+{e.pos}: in {sorted(funcs)} expected {sorted(want)}",
                         u.origin[0] + ("/data" if u.kind == "data" else ""))
    have = set(name_of.values()) - set(new_syms)
    for f in case.funcs:
        if f in surviving and f not in have:
            out.fail("C06.tables", "function-lost", f)
        if f not in surviving and f in have:
            # documented zero-sized blocks may keep the function alive
            u = next(k for k, v in name_of.items() if v == f)
            if any(b.size for b in fb.get(u, ())):
                out.fail("C06.tables", "empty-function-kept", f)
            else:
                out.classes.append("function-kept-by-zero-sized-block")
    # entries
    for f in case.funcs:
        if f not in have:
            continue
        u = next(k for k, v in name_of.items() if v == f)
        want = set()
        optional = set()
        for g in case.entries[f]:
            sec_idxs = case.sections[case.blocks[g].sec][1]
            k = sec_idxs.index(g)
            via_data = False
            while True:
                gg = sec_idxs[k]
                if gg not in exp.deleted_blocks:
                    (optional if via_data else want).add(exp.block_start[gg])
                    break
                if gg in exp.proxy_blocks and case.blocks[gg].code:
                    break
                k += 1
                if k >= len(sec_idxs):
                    break
                nb = case.blocks[sec_idxs[k]]
                if not nb.code and sec_idxs[k] in exp.deleted_blocks:
                    # wholly deleted data between the entry and the next block of
                    # the function: the property only forbids promotion across
                    # functions, so both outcomes are accepted (whether or not the
                    # data was deleted with retarget_to_proxy)
                    via_data = True
                    continue
                if not nb.code or nb.func != f:
                    break
        got = set()
        for b in fe.get(u, ()):
            p = obs.block_pos(b)
            if p is not None and b.size:
                got.add(p)
        if want <= got <= (want | optional):
            got = want
        if got != want:
            out.fail("C06.entries", "entry-set", f"{f}: entries at {sorted(got)} expected {sorted(want)}")
    return out


render = _rw.render
