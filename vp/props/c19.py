"""C19 - delete_symbol removes every trace of the symbol, and only that."""

import copy
import uuid as _uuid

from hypothesis import strategies as st

from .. import observe as Ob
from ..core import BadSpec, Outcome, exc_kind

ID = "C19"
TECHNIQUE = ("property-based testing (Hypothesis): generated ELF/PE modules in which symbols occur in arbitrary subsets of "
             "the symbol-bearing aux tables, CFI directives and symbolic expressions; the result of "
             "RewritingContext.delete_symbol()+apply() is compared with a reference 'expected module' computed on plain data")
RULE = ("a case is a module with 3-10 symbols of which 1-4 are deleted (force flags per request, possibly the same "
        "symbol requested twice with different flags); each symbol occurs in a generated subset of elfSymbolInfo, "
        "elfSymbolTabIdxInfo, elfSymbolVersions (defined and needed versions, shared and unshared ids, several "
        "libraries, a base definition, flags 0/1/2), functionNames, peImportedSymbols / peExportedSymbols, "
        "symbolForwarding (key and value), CFI personality / LSDA / other directives, SymAddrConst and SymAddrAddr "
        "expressions. Expected: deleted symbols and every mention gone (CFI: null UUID, DW_EH_PE_omit for "
        "personality/LSDA), SymbolUsesRemainingError iff an unforced deleted symbol is used by an expression, forced "
        "uses removed and no other expression, version definitions / requirements dropped exactly when unused (base "
        "kept, emptied libraries removed), bystanders identical, protobuf round trip. Non-trivial = a deleted symbol "
        "shares a version id or library with a bystander, or occurs in >= 3 tables; distinct by spec hash.")
ASSUMPTIONS = [
    "when SymbolUsesRemainingError is raised the state left behind is not judged (the property does not promise atomicity)",
    "version libraries that are already empty before the deletion are not generated",
]

_i = st.integers(0, 20)
_sub = st.lists(_i, max_size=6)


def strategy(tier):
    return st.fixed_dictionaries({
        "fmt": st.sampled_from(["elf", "elf", "pe"]),
        "nsyms": st.integers(3, 10),
        "delete": st.lists(st.fixed_dictionaries({"s": _i, "force": st.booleans()}), min_size=1, max_size=5),
        "info": _sub, "tabidx": _sub, "fnames": _sub, "imported": _sub, "exported": _sub,
        "fwd": st.lists(st.tuples(_i, _i).map(list), max_size=4),
        "cfi": st.lists(st.fixed_dictionaries({"d": st.sampled_from(["pers", "lsda", "other"]), "s": _i}), max_size=4),
        "exprs": st.lists(st.fixed_dictionaries({"s": _i, "s2": st.one_of(st.none(), _i)}), max_size=5),
        "versions": st.one_of(st.none(), st.fixed_dictionaries({
            "defs": st.lists(st.fixed_dictionaries({"flags": st.sampled_from([0, 0, 1, 2])}), max_size=3),
            "libs": st.lists(st.integers(1, 3), max_size=3),      # versions per library
            "entries": st.lists(st.fixed_dictionaries({"s": _i, "id": _i, "hidden": st.booleans()}), max_size=8),
        })),
    })


def budget(tier):
    return 30_000 if tier == "quick" else 1_000_000


def _build(spec):
    import gtirb

    from gtirb_rewriting._auxdata import NULL_UUID

    fmt = spec["fmt"]
    ir = gtirb.IR()
    m = gtirb.Module(name="m", isa=gtirb.Module.ISA.X64,
                     file_format=gtirb.Module.FileFormat.ELF if fmt == "elf" else gtirb.Module.FileFormat.PE, ir=ir)
    m.byte_order = gtirb.Module.ByteOrder.Little
    sec = gtirb.Section(name=".text", module=m)
    n = spec["nsyms"]
    bi = gtirb.ByteInterval(contents=b"\x90" * 8 + bytes(8 * 8), address=0x1000, section=sec)
    cb = gtirb.CodeBlock(offset=0, size=8, byte_interval=bi)
    db = gtirb.DataBlock(offset=8, size=64, byte_interval=bi)
    syms = []
    for k in range(n):
        payload = cb if k % 3 == 0 else (db if k % 3 == 1 else gtirb.ProxyBlock(module=m))
        syms.append(gtirb.Symbol(name=f"s{k}", payload=payload, module=m))
    model = {"symbols": {f"s{k}" for k in range(n)}, "tables": {}}
    A = gtirb.AuxData

    def pick(lst):
        out = []
        for x in lst:
            if x % n not in out:
                out.append(x % n)
        return out

    if fmt == "elf":
        info = pick(spec["info"])
        m.aux_data["elfSymbolInfo"] = A({syms[k]: (0, "FUNC", "GLOBAL", "DEFAULT", k) for k in info},
                                        "mapping<UUID,tuple<uint64_t,string,string,string,uint64_t>>")
        model["tables"]["elfSymbolInfo"] = {f"s{k}": [0, "FUNC", "GLOBAL", "DEFAULT", k] for k in info}
        tab = pick(spec["tabidx"])
        m.aux_data["elfSymbolTabIdxInfo"] = A({syms[k]: [(".symtab", k)] for k in tab},
                                              "mapping<UUID,sequence<tuple<string,uint64_t>>>")
        model["tables"]["elfSymbolTabIdxInfo"] = {f"s{k}": [[".symtab", k]] for k in tab}
        v = spec.get("versions")
        if v is not None:
            defs, needed, entries = {}, {}, {}
            nid = 1
            has_base = False
            for d in v["defs"]:
                flags = d["flags"]
                if flags == 1:
                    if has_base:
                        flags = 0
                    has_base = True
                defs[nid] = ([f"VER_{nid}"], flags)
                nid += 1
            for li, cnt in enumerate(v["libs"]):
                needed[f"lib{li}.so"] = {}
                for _ in range(cnt):
                    needed[f"lib{li}.so"][nid] = f"LIBVER_{nid}"
                    nid += 1
            ids = [i for i in range(1, nid) if not (i in defs and defs[i][1] == 1)]
            if ids:
                for e in v["entries"]:
                    k = e["s"] % n
                    if syms[k] not in entries:
                        entries[syms[k]] = (ids[e["id"] % len(ids)], bool(e["hidden"]))
            m.aux_data["elfSymbolVersions"] = A(
                (defs, needed, entries),
                "tuple<mapping<uint16_t,tuple<sequence<string>,uint16_t>>,mapping<string,mapping<uint16_t,string>>,"
                "mapping<UUID,tuple<uint16_t,bool>>>")
            model["versions"] = {
                "defs": {i: [list(nm), fl] for i, (nm, fl) in defs.items()},
                "needed": {lib: dict(vs) for lib, vs in needed.items()},
                "entries": {s.name: [i, h] for s, (i, h) in entries.items()},
            }
    else:
        imp = pick(spec["imported"])
        exp = pick(spec["exported"])
        m.aux_data["peImportedSymbols"] = A([syms[k] for k in imp], "sequence<UUID>")
        m.aux_data["peExportedSymbols"] = A([syms[k] for k in exp], "sequence<UUID>")
        model["tables"]["peImportedSymbols"] = [f"s{k}" for k in imp]
        model["tables"]["peExportedSymbols"] = [f"s{k}" for k in exp]
    fn = pick(spec["fnames"])
    fnames = {}
    mf = {}
    for k in fn:
        u = _uuid.UUID(int=1000 + k)
        fnames[u] = syms[k]
        mf[str(u)] = f"s{k}"
    m.aux_data["functionNames"] = A(fnames, "mapping<UUID,UUID>")
    model["tables"]["functionNames"] = mf
    fwd = {}
    for a, b in spec["fwd"]:
        if syms[a % n] not in fwd:
            fwd[syms[a % n]] = syms[b % n]
    m.aux_data["symbolForwarding"] = A(fwd, "mapping<UUID,UUID>")
    model["tables"]["symbolForwarding"] = {a.name: b.name for a, b in fwd.items()}
    cfi = [(".cfi_startproc", [], NULL_UUID)]
    mc = [[".cfi_startproc", [], None]]
    for c in spec["cfi"]:
        s = syms[c["s"] % n]
        if c["d"] == "pers":
            cfi.append((".cfi_personality", [0x9B], s))
            mc.append([".cfi_personality", [0x9B], s.name])
        elif c["d"] == "lsda":
            cfi.append((".cfi_lsda", [0x1B], s))
            mc.append([".cfi_lsda", [0x1B], s.name])
        else:
            cfi.append((".cfi_val_offset", [3, 8], s))
            mc.append([".cfi_val_offset", [3, 8], s.name])
    cfi.append((".cfi_endproc", [], NULL_UUID))
    mc.append([".cfi_endproc", [], None])
    m.aux_data["cfiDirectives"] = A({gtirb.Offset(cb, 0): cfi},
                                    "mapping<Offset,sequence<tuple<string,sequence<int64_t>,UUID>>>")
    model["cfi"] = mc
    model["exprs"] = {}
    for k, e in enumerate(spec["exprs"]):
        off = 8 + 8 * k
        s1 = syms[e["s"] % n]
        if e["s2"] is None:
            bi.symbolic_expressions[off] = gtirb.SymAddrConst(k, s1)
            model["exprs"][off] = [s1.name]
        else:
            s2 = syms[e["s2"] % n]
            bi.symbolic_expressions[off] = gtirb.SymAddrAddr(1, k, s1, s2)
            model["exprs"][off] = [s1.name, s2.name]
    return ir, m, syms, model


def _expect(model, requests, n):
    """reference: plain-data deletion"""
    force = {}
    for r in requests:
        name = f"s{r['s'] % n}"
        force[name] = (force[name] and r["force"]) if name in force else bool(r["force"])
    dead = set(force)
    for off, names in model["exprs"].items():
        for nm in names:
            if nm in dead and not force[nm]:
                return "uses-remaining", dead
    exp = copy.deepcopy(model)
    exp["symbols"] -= dead
    for tname, t in exp["tables"].items():
        if tname == "symbolForwarding":
            exp["tables"][tname] = {k: v for k, v in t.items() if k not in dead and v not in dead}
        elif tname == "functionNames":
            exp["tables"][tname] = {k: v for k, v in t.items() if v not in dead}
        elif isinstance(t, dict):
            exp["tables"][tname] = {k: v for k, v in t.items() if k not in dead}
        else:
            exp["tables"][tname] = [x for x in t if x not in dead]
    newcfi = []
    for d, a, s in exp["cfi"]:
        if s in dead:
            if d in (".cfi_personality", ".cfi_lsda"):
                newcfi.append([d, [0xFF], None])
            else:
                newcfi.append([d, a, None])
        else:
            newcfi.append([d, a, s])
    exp["cfi"] = newcfi
    exp["exprs"] = {off: names for off, names in exp["exprs"].items() if not any(nm in dead for nm in names)}
    if "versions" in exp:
        v = exp["versions"]
        v["entries"] = {k: x for k, x in v["entries"].items() if k not in dead}
        used = {x[0] for x in v["entries"].values()}
        v["defs"] = {i: d for i, d in v["defs"].items() if i in used or d[1] == 1}
        newneeded = {}
        for lib, vs in v["needed"].items():
            kept = {i: nm for i, nm in vs.items() if i in used}
            if kept or not vs:
                newneeded[lib] = kept
        v["needed"] = newneeded
    return exp, dead


def _observe(m, syms):
    import gtirb

    def nm(x):
        if isinstance(x, gtirb.Symbol):
            return x.name
        if isinstance(x, _uuid.UUID):
            return None if x.int == 0 else f"uuid:{x}"
        return x

    obs = {"symbols": {s.name for s in m.symbols}, "tables": {}}
    for tname in ("elfSymbolInfo", "elfSymbolTabIdxInfo"):
        if tname in m.aux_data:
            obs["tables"][tname] = {nm(k): [list(x) if isinstance(x, tuple) else x for x in (list(v) if isinstance(v, (tuple, list)) else [v])]
                                    for k, v in m.aux_data[tname].data.items()}
    if "elfSymbolInfo" in obs["tables"]:
        obs["tables"]["elfSymbolInfo"] = {k: v for k, v in obs["tables"]["elfSymbolInfo"].items()}
    for tname in ("peImportedSymbols", "peExportedSymbols"):
        if tname in m.aux_data:
            obs["tables"][tname] = [nm(x) for x in m.aux_data[tname].data]
    if "functionNames" in m.aux_data:
        obs["tables"]["functionNames"] = {str(k): nm(v) for k, v in m.aux_data["functionNames"].data.items()}
    if "symbolForwarding" in m.aux_data:
        obs["tables"]["symbolForwarding"] = {nm(k): nm(v) for k, v in m.aux_data["symbolForwarding"].data.items()}
    cfi = []
    for key, ds in m.aux_data["cfiDirectives"].data.items():
        for d, a, s in ds:
            cfi.append([d, list(a), nm(s)])
    obs["cfi"] = cfi
    obs["exprs"] = {}
    for bi in m.byte_intervals:
        for off, e in bi.symbolic_expressions.items():
            obs["exprs"][off] = [s.name for s in e.symbols]
    if "elfSymbolVersions" in m.aux_data:
        defs, needed, entries = m.aux_data["elfSymbolVersions"].data
        obs["versions"] = {"defs": {i: [list(n_), f] for i, (n_, f) in defs.items()},
                           "needed": {lib: dict(vs) for lib, vs in needed.items()},
                           "entries": {nm(s): [i, h] for s, (i, h) in entries.items()}}
    return obs


def evaluate(spec):
    import gtirb_rewriting as gr
    from gtirb_rewriting._modify.delete_symbols import SymbolUsesRemainingError

    out = Outcome()
    try:
        ir, m, syms, model = _build(spec)
        n = spec["nsyms"]
        requests = spec["delete"]
        want, dead = _expect(model, requests, n)
    except (KeyError, TypeError, IndexError, ZeroDivisionError) as e:
        raise BadSpec(repr(e))
    ctx = gr.RewritingContext(m, [])
    for r in requests:
        ctx.delete_symbol(syms[r["s"] % n], force=bool(r["force"]))
    # non-trivial
    nt = False
    for nm in dead:
        cnt = sum(1 for t in model["tables"].values() if (nm in t if not isinstance(t, dict) else (nm in t or nm in t.values())))
        cnt += any(s == nm for _d, _a, s in model["cfi"]) + any(nm in x for x in model["exprs"].values())
        if cnt >= 3:
            nt = True
        v = model.get("versions")
        if v and nm in v["entries"]:
            vid = v["entries"][nm][0]
            if any(k not in dead and x[0] == vid for k, x in v["entries"].items()):
                nt = True
            for lib, vs in v["needed"].items():
                if vid in vs and any(k not in dead and x[0] in vs for k, x in v["entries"].items()):
                    nt = True
    out.nontrivial = nt
    out.classes = ["fmt=" + spec["fmt"], f"deleted={len(dead)}",
                   "expect-uses-remaining" if want == "uses-remaining" else "expect-success"]
    if "versions" in model:
        out.classes.append("has-versions")
    if len(requests) != len(dead):
        out.classes.append("symbol-requested-twice")
    err = None
    try:
        ctx.apply()
    except SymbolUsesRemainingError as e:
        err = e
    except Exception as e:
        out.fail("C19.errors", "wrong-exception:" + exc_kind(e), repr(e)[:300])
        return out
    if want == "uses-remaining":
        if err is None:
            out.fail("C19.errors", "uses-remaining-not-reported", f"deleted {sorted(dead)}")
        return out
    if err is not None:
        out.fail("C19.errors", "uses-remaining-raised-although-forced-or-unused", str(err))
        return out
    got = _observe(m, syms)
    for s in syms:
        if s.name in dead and (s.module is not None or s in m.symbols):
            out.fail("C19.removed", "symbol-still-in-module", s.name)
    for part in ("symbols", "tables", "cfi", "exprs", "versions"):
        if part not in want and part not in got:
            continue
        w, g = want.get(part), got.get(part)
        if part == "tables":
            for tname in sorted(set(w) | set(g)):
                if w.get(tname) != g.get(tname):
                    out.fail("C19.tables", "table-differs", f"{tname}: expected {w.get(tname)} got {g.get(tname)}", tname)
        elif w != g:
            d = Ob.first_diff(_j(w), _j(g))
            out.fail("C19." + part, "differs", f"{d}", part)
    for kind, detail in Ob.validate_ir(ir):
        if kind.startswith("protobuf") or kind.startswith("aux-mentions") or kind.startswith("symexpr-symbol"):
            out.fail("C19.serializes", kind, detail)
    return out


def _j(v):
    if isinstance(v, dict):
        return {str(k): _j(x) for k, x in v.items()}
    if isinstance(v, (set, frozenset)):
        return sorted(v)
    if isinstance(v, (list, tuple)):
        return [_j(x) for x in v]
    return v


def render(spec):
    return spec
