"""
C14 - DWARF expression/CFI encodings round-trip and match the standard.

Oracle: vp.refmodels.dwarf (independent DWARF v4 codec).  See DESIGN.md C14.
"""

import dataclasses
import io

from hypothesis import strategies as st

from ..core import BadSpec, Outcome, Recorder, exc_kind
from ..refmodels import dwarf as R

ID = "C14"
TECHNIQUE = (
    "property-based differential testing against an independent DWARF v4 "
    "codec (Hypothesis) + exhaustive enumeration of all 256 first bytes and "
    "of boundary operand values"
)
RULE = (
    "cases are (a) library objects built from generated operand values "
    "(boundary-biased integers around every power of two up to 2^70, nested "
    "expressions to depth 3, expression blocks of 50-90 operations and of 127/128/16383/16384 bytes) judged class-side: encode == reference bytes, "
    "decode(bytes+garbage) == object and consumes exactly len(bytes), "
    "out-of-range => ValueError; (b) byte strings (every first byte x "
    "reference-encoded or random operand bytes) judged byte-side against the "
    "standard's opcode table; (c) sequences for parse_cfi_instructions; "
    "(d) integers for make_const_op (value + minimal length). Non-trivial = "
    "some operand is within 1 of +-2^k (k>=5, i.e. a fixed-width or LEB128 "
    "length boundary) or the object nests an expression; distinct by spec hash."
)
ASSUMPTIONS = [
    "reference codec typed in from DWARF v4 figures 24 and 40 is itself right "
    "(cross-checked on start-up against hand-written vectors from the standard "
    "and binutils output)",
    "truncated inputs and blocks whose last operation overruns the block are "
    "outside the property (skipped, counted)",
    "class names exported by gtirb_rewriting.dwarf.{expr,cfi} are the API; the "
    "set of modelled classes is pinned from the baseline tree",
]

# library class name -> reference (table, name)
OPS = {
    "OpDup": "dup", "OpDrop": "drop", "OpPick": "pick", "OpOver": "over",
    "OpSwap": "swap", "OpRot": "rot", "OpXDeref": "xderef", "OpDeref": "deref",
    "OpDerefSize": "deref_size", "OpAbs": "abs", "OpAnd": "and",
    "OpDiv": "div", "OpMinus": "minus", "OpMod": "mod", "OpMul": "mul",
    "OpNeg": "neg", "OpNot": "not", "OpOr": "or", "OpPlus": "plus",
    "OpPlusUConst": "plus_uconst", "OpShl": "shl", "OpShr": "shr",
    "OpShrA": "shra", "OpXor": "xor", "OpSkip": "skip", "OpBra": "bra",
    "OpEq": "eq", "OpGe": "ge", "OpGt": "gt", "OpLe": "le", "OpLt": "lt",
    "OpNe": "ne", "OpAddr": "addr", "OpConst1U": "const1u",
    "OpConst1S": "const1s", "OpConst2U": "const2u", "OpConst2S": "const2s",
    "OpConst4U": "const4u", "OpConst4S": "const4s", "OpConst8U": "const8u",
    "OpConst8S": "const8s", "OpConstS": "consts", "OpConstU": "constu",
    "OpLit": "lit", "OpReg": "reg", "OpRegX": "regx", "OpBReg": "breg",
    "OpBRegX": "bregx",
}
INSTS = {
    "InstDefCFA": "def_cfa", "InstDefCFASF": "def_cfa_sf",
    "InstDefCFARegister": "def_cfa_register",
    "InstDefCFAOffset": "def_cfa_offset",
    "InstDefCFAOffsetSF": "def_cfa_offset_sf",
    "InstDefCFAExpression": "def_cfa_expression",
    "InstUndefined": "undefined", "InstSameValue": "same_value",
    "InstOffset": "offset", "InstOffsetExtended": "offset_extended",
    "InstOffsetExtendedSF": "offset_extended_sf",
    "InstValOffset": "val_offset", "InstValOffsetSF": "val_offset_sf",
    "InstRegister": "register", "InstExpression": "expression",
    "InstValExpression": "val_expression", "InstRestore": "restore",
    "InstRestoreExtended": "restore_extended",
    "InstRememberState": "remember_state",
    "InstRestoreState": "restore_state", "InstNop": "nop",
}
TABLE_OF = {"op": OPS, "cfa": INSTS}
REV = {
    "op": {v: k for k, v in OPS.items()},
    "cfa": {v: k for k, v in INSTS.items()},
}


def _kinds(tab, cls):
    name = TABLE_OF[tab][cls]
    base, count, kinds = R.lookup(tab, name)
    return (["fused"] if count is not None else []) + list(kinds)


def _libmod(tab):
    from gtirb_rewriting.dwarf import cfi, expr

    return expr if tab == "op" else cfi


# the first bytes the library models on the pinned tree (snapshot)
def modelled_bytes(tab):
    out = set()
    for cls, name in TABLE_OF[tab].items():
        base, count, _ = R.lookup(tab, name)
        out.update(range(base, base + (count or 1)))
    return out


def calibrate():
    """Self-test of the reference against vectors from the standard / gas."""
    from ..core import HarnessError

    vec = [
        (R.uleb(2), b"\x02"), (R.uleb(127), b"\x7f"), (R.uleb(128), b"\x80\x01"),
        (R.uleb(129), b"\x81\x01"), (R.uleb(12857), b"\xb9\x64"),
        (R.sleb(2), b"\x02"), (R.sleb(-2), b"\x7e"), (R.sleb(127), b"\xff\x00"),
        (R.sleb(-127), b"\x81\x7f"), (R.sleb(128), b"\x80\x01"),
        (R.sleb(-128), b"\x80\x7f"), (R.sleb(-129), b"\xff\x7e"),
        # .cfi_def_cfa 7, 8 ; .cfi_offset 16,-8 (daf -8) ; def_cfa_offset 16
        (R.encode("cfa", ("def_cfa", [7, 8]), "little", 8), b"\x0c\x07\x08"),
        (R.encode("cfa", ("offset", [16, 1]), "little", 8), b"\x90\x01"),
        (R.encode("cfa", ("def_cfa_offset", [16]), "little", 8), b"\x0e\x10"),
        (R.encode("op", ("breg", [7, 8]), "little", 8), b"\x77\x08"),
        (R.encode("op", ("const2s", [-2]), "big", 8), b"\x0b\xff\xfe"),
        (R.encode("op", ("addr", [0x1122]), "little", 4), b"\x03\x22\x11\x00\x00"),
        (R.encode("cfa", ("def_cfa_expression", [[("breg", [7, 8]), ("deref", [])]]),
                  "little", 8), b"\x0f\x03\x77\x08\x06"),
    ]
    for got, want in vec:
        if got != want:
            raise HarnessError(f"reference codec self-test: {got!r} != {want!r}")
    for tab in ("op", "cfa"):
        names = R.opcode_names(tab)
        for b, nm in names.items():
            item = (nm, _sample_operands(tab, nm, b))
            enc = R.encode(tab, item, "little", 8)
            if tab == "op" and nm == "implicit_value":
                continue
            dec, n = R.decode(tab, enc + b"\xaa", 0, "little", 8)
            if dec != item or n != len(enc):
                raise HarnessError(f"reference round trip {item} {dec}")


def _sample_operands(tab, nm, b):
    base, count, kinds = R.lookup(tab, nm)
    ops = [b - base] if count is not None else []
    for k in kinds:
        ops.append([] if k == R.BLOCK else 1)
    return ops


# ---------------------------------------------------------------------------
# strategies (spec-first)
# ---------------------------------------------------------------------------
def _boundary_ints():
    vals = {0, 1, -1, 31, 32, 63, 64}
    for k in range(0, 71):
        for d in (-1, 0, 1):
            vals.add((1 << k) + d)
            vals.add(-(1 << k) + d)
    return sorted(vals)


BOUNDARY = _boundary_ints()
ints = st.one_of(
    st.sampled_from(BOUNDARY),
    st.integers(-300, 300),
    st.integers(-(1 << 70), 1 << 70),
)
small_ints = st.one_of(st.integers(-2, 70), st.sampled_from(BOUNDARY))


# a block long enough for a two-byte length prefix, from a small pool of
# concrete operations (cheap to generate)
_LONG_POOL = [
    {"cls": "OpDeref", "vals": []}, {"cls": "OpBReg", "vals": [7, -8]}, {"cls": "OpConst1U", "vals": [5]},
    {"cls": "OpConst2S", "vals": [-300]}, {"cls": "OpPlusUConst", "vals": [300]}, {"cls": "OpAnd", "vals": []},
]
_LONG_BLOCK = st.lists(st.sampled_from(_LONG_POOL), min_size=50, max_size=90)


def _obj(tab, depth):
    classes = sorted(TABLE_OF[tab])

    def build(cls):
        fields = []
        for k in _kinds(tab, cls):
            if k == "fused":
                fields.append(small_ints)
            elif k == R.BLOCK:
                if depth <= 0:
                    fields.append(st.just([]))
                else:
                    # now and then a block long enough for a multi-byte
                    # length prefix
                    fields.append(st.one_of(*([st.lists(_obj("op", depth - 1), max_size=4)] * 15), _LONG_BLOCK))
            else:
                fields.append(ints)
        return st.fixed_dictionaries(
            {"cls": st.just(cls), "vals": st.tuples(*fields).map(list)}
        )

    return st.sampled_from(classes).flatmap(build)


_ctx = {
    "order": st.sampled_from(["little", "big"]),
    "ptr": st.sampled_from([4, 8]),
}


def _valid_obj(tab, depth):
    """objects whose operands are (mostly) in range: used for bytes/seq."""
    classes = sorted(TABLE_OF[tab])

    def rng(kind):
        if kind == "fused":
            return st.integers(0, 31)
        if kind in R._FIXED:
            size, signed = R._FIXED[kind]
            lo, hi = (-(1 << (8 * size - 1)), (1 << (8 * size - 1)) - 1) if signed else (0, (1 << (8 * size)) - 1)
            return st.one_of(st.integers(lo, hi), st.sampled_from([lo, hi, 0]))
        if kind == R.ULEB:
            return st.one_of(st.integers(0, 200), st.integers(0, 1 << 66),
                             st.sampled_from([v for v in BOUNDARY if v >= 0]))
        if kind == R.SLEB:
            return ints
        if kind in (R.ADDR, R.OFFS):
            return st.integers(0, (1 << 32) - 1)
        raise AssertionError(kind)

    def build(cls):
        fields = []
        for k in _kinds(tab, cls):
            if k == R.BLOCK:
                fields.append(st.one_of(*([st.lists(_valid_obj("op", depth - 1), max_size=3)] * 15), _LONG_BLOCK)
                              if depth > 0 else st.just([]))
            else:
                fields.append(rng(k))
        return st.fixed_dictionaries(
            {"cls": st.just(cls), "vals": st.tuples(*fields).map(list)}
        )

    return st.sampled_from(classes).flatmap(build)


def strategy(tier):
    depth = 3
    tail = st.lists(st.integers(0, 255), max_size=6)
    obj = st.fixed_dictionaries(
        {"k": st.just("obj"), "tab": st.sampled_from(["op", "cfa"]), "tail": tail, **_ctx}
    ).flatmap(
        lambda d: _obj(d["tab"], depth).map(lambda o: {**d, "obj": o})
    )
    raw = st.fixed_dictionaries(
        {
            "k": st.just("bytes"),
            "tab": st.sampled_from(["op", "cfa"]),
            "data": st.lists(st.integers(0, 255), min_size=1, max_size=24),
            **_ctx,
        }
    )
    # a valid encoding (built by the reference at evaluation time) + garbage
    enc = st.fixed_dictionaries(
        {"k": st.just("enc"), "tab": st.sampled_from(["op", "cfa"]), "tail": tail, **_ctx}
    ).flatmap(
        lambda d: _valid_obj(d["tab"], 2).map(lambda o: {**d, "obj": o})
    )
    seq = st.fixed_dictionaries(
        {
            "k": st.just("seq"),
            "items": st.lists(_valid_obj("cfa", 2), max_size=8),
            **_ctx,
        }
    )
    const = st.fixed_dictionaries({"k": st.just("const"), "v": st.one_of(
        ints, st.integers(-(1 << 63) - 2, (1 << 64) + 2))})
    return st.one_of(obj, obj, raw, enc, seq, const)


def budget(tier):
    return 100_000 if tier == "quick" else 3_000_000


# ---------------------------------------------------------------------------
# evaluation
# ---------------------------------------------------------------------------
def _to_ref(tab, o):
    try:
        cls, vals = o["cls"], o["vals"]
        name = TABLE_OF[tab][cls]
        kinds = _kinds(tab, cls)
    except (KeyError, TypeError):
        raise BadSpec("object")
    if len(vals) != len(kinds):
        raise BadSpec("arity")
    ops = []
    for k, v in zip(kinds, vals):
        if k == R.BLOCK:
            if not isinstance(v, list):
                raise BadSpec("block")
            ops.append([_to_ref("op", x) for x in v])
        else:
            if not isinstance(v, int) or isinstance(v, bool):
                raise BadSpec("int")
            ops.append(v)
    return (name, ops)


class _Reject(Exception):
    pass


def _to_lib(tab, o):
    """Build the library object; ValueError => _Reject."""
    mod = _libmod(tab)
    cls = getattr(mod, o["cls"])
    kinds = _kinds(tab, o["cls"])
    args = []
    for k, v in zip(kinds, o["vals"]):
        if k == R.BLOCK:
            args.append([_to_lib("op", x) for x in v])
        else:
            args.append(v)
    names = [f.name for f in dataclasses.fields(cls)]
    if len(names) != len(args):
        raise AssertionError(
            f"{o['cls']} has fields {names}, standard has {kinds}"
        )
    try:
        return cls(*args)
    except ValueError as e:
        raise _Reject(str(e))


def _lib_to_item(tab, obj):
    """library object -> reference item (through public class name + fields)."""
    name = TABLE_OF[tab].get(type(obj).__name__)
    if name is None:
        return ("?" + type(obj).__name__, [])
    ops = []
    for f in dataclasses.fields(obj):
        v = getattr(obj, f.name)
        if isinstance(v, list):
            ops.append([_lib_to_item("op", x) for x in v])
        else:
            ops.append(v)
    return (name, ops)


def _boundary(v):
    a = abs(v)
    for x in (a - 1, a, a + 1):
        if x >= 32 and x & (x - 1) == 0:
            return True
    return False


def _item_nontrivial(item, top=True):
    name, ops = item
    for v in ops:
        if isinstance(v, list):
            if v:
                return True
        elif _boundary(v):
            return True
    return False


def _decode_lib(tab, data, order, ptr):
    mod = _libmod(tab)
    base = mod.Operation if tab == "op" else mod.Instruction
    bio = io.BytesIO(bytes(data))
    obj, n = base.decode(bio, order, ptr)
    return obj, n, bio.tell()


def evaluate(spec):
    out = Outcome()
    try:
        k = spec["k"]
    except (KeyError, TypeError):
        raise BadSpec("kind")
    if k == "obj":
        _eval_obj(spec, out)
    elif k == "enc":
        _eval_enc(spec, out)
    elif k == "bytes":
        _eval_bytes(spec, out)
    elif k == "seq":
        _eval_seq(spec, out)
    elif k == "const":
        _eval_const(spec, out)
    else:
        raise BadSpec("kind")
    out.classes.append("kind=" + k)
    return out


def _ctxof(spec):
    order, ptr = spec.get("order"), spec.get("ptr")
    if order not in ("little", "big") or ptr not in (4, 8):
        raise BadSpec("ctx")
    return order, ptr


def _eval_obj(spec, out):
    tab = spec["tab"]
    order, ptr = _ctxof(spec)
    o = spec["obj"]
    item = _to_ref(tab, o)
    out.nontrivial = _item_nontrivial(item)
    sig = o["cls"]
    try:
        want = R.encode(tab, item, order, ptr)
    except R.OutOfRange:
        want = None
    got = None
    rejected = None
    obj = None
    try:
        obj = _to_lib(tab, o)
        try:
            got = bytes(obj.encode(order, ptr))
        except ValueError as e:
            rejected = "encode"
    except _Reject:
        rejected = "construct"
    except AttributeError as e:
        out.fail("C14.model", "class-missing", repr(e), sig)
        return
    except Exception as e:
        out.fail("C14.range", "wrong-exception:" + exc_kind(e), repr(e), sig)
        return
    out.classes.append("in-range" if want is not None else "out-of-range")
    if want is None:
        if rejected is None:
            out.fail(
                "C14.range", "accepted-out-of-range",
                f"{item} {order}/{ptr} encoded to {got.hex()}", sig,
            )
        return
    if rejected is not None:
        out.fail("C14.range", "rejected-in-range",
                 f"{item} {order}/{ptr} rejected at {rejected}", sig)
        return
    if got != want:
        out.fail("C14.standard", "bytes-differ",
                 f"{item} {order}/{ptr}: lib {got.hex()} standard {want.hex()}", sig)
        return
    tail = bytes(spec.get("tail", []))
    try:
        obj2, n, told = _decode_lib(tab, got + tail, order, ptr)
    except Exception as e:
        out.fail("C14.roundtrip", "decode-raised:" + exc_kind(e),
                 f"{item} {got.hex()}+{tail.hex()}: {e!r}", sig)
        return
    if type(obj2) is not type(obj) or obj2 != obj:
        out.fail("C14.roundtrip", "object-differs",
                 f"{obj!r} -> {got.hex()} -> {obj2!r}", sig)
    if n != len(got) or told != len(got):
        out.fail("C14.roundtrip", "consumed-differs",
                 f"{obj!r} {got.hex()}+{tail.hex()} reported {n} stream {told}", sig)
    if tab == "cfa":
        _check_gtirb_encoding(obj, got, order, ptr, out, sig)


def _check_gtirb_encoding(obj, enc, order, ptr, out, sig):
    from gtirb_rewriting._auxdata import NULL_UUID

    try:
        directive, operands, uuid = obj.gtirb_encoding(order, ptr)
        re = R.assemble_directive(directive, list(operands), order, ptr)
    except Exception as e:
        out.fail("C14.gtirb-encoding", "raised:" + type(e).__name__,
                 f"{obj!r}: {e!r}", sig)
        return
    if re != enc or uuid != NULL_UUID:
        out.fail("C14.gtirb-encoding", "reencode-differs",
                 f"{obj!r}: {directive} {operands} -> {re.hex()} != {enc.hex()}", sig)
    try:
        text = obj.assembly_string(order, ptr)
        parts = text.split(None, 1)
        d2 = parts[0]
        ops2 = [int(x) for x in parts[1].split(",")] if len(parts) > 1 else []
        if d2 != directive or ops2 != list(operands):
            out.fail("C14.gtirb-encoding", "assembly-string-differs",
                     f"{obj!r}: {text!r}", sig)
    except Exception as e:
        out.fail("C14.gtirb-encoding", "assembly-string-raised",
                 f"{obj!r}: {e!r}", sig)


def _eval_enc(spec, out):
    tab = spec["tab"]
    order, ptr = _ctxof(spec)
    item = _to_ref(tab, spec["obj"])
    try:
        enc = R.encode(tab, item, order, ptr)
    except R.OutOfRange:
        out.classes.append("enc-out-of-range")
        return
    out.nontrivial = _item_nontrivial(item)
    _judge_bytes(tab, enc + bytes(spec.get("tail", [])), order, ptr, out)


def _eval_bytes(spec, out):
    order, ptr = _ctxof(spec)
    data = spec["data"]
    if not data or not all(isinstance(b, int) and 0 <= b <= 255 for b in data):
        raise BadSpec("data")
    _judge_bytes(spec["tab"], bytes(data), order, ptr, out)


def _judge_bytes(tab, data, order, ptr, out):
    """Byte-side, two-sided comparison with the standard's table."""
    first = data[0]
    sig = f"{tab}:0x{first:02x}"
    try:
        want, wn = R.decode(tab, data, 0, order, ptr)
        wstate = "ok"
    except R.Unknown:
        wstate = "unknown"
    except R.NestedUnknown:
        wstate = "nested-unknown"
    except R.Truncated:
        out.classes.append("skipped-truncated")
        return
    except R.Malformed:
        out.classes.append("skipped-malformed")
        return
    try:
        obj, n, told = _decode_lib(tab, data, order, ptr)
        lstate = "ok"
    except ValueError as e:
        lstate = "reject"
    except Exception as e:
        out.fail("C14.decode", "wrong-exception:" + exc_kind(e),
                 f"{data.hex()}: {e!r}", sig)
        return
    out.classes.append(f"bytes:{wstate}/{lstate}")
    if lstate == "ok":
        if wstate in ("unknown", "nested-unknown"):
            out.fail("C14.standard", "accepts-nonstandard-opcode",
                     f"{data.hex()} -> {obj!r}", sig)
            return
        got = _lib_to_item(tab, obj)
        if got != want:
            out.fail("C14.standard", "decoded-differs",
                     f"{data.hex()} {order}/{ptr}: lib {got} standard {want}", sig)
        elif n != wn or told != wn:
            out.fail("C14.roundtrip", "consumed-differs",
                     f"{data.hex()}: lib {n}/{told} standard {wn}", sig)
        else:
            if _item_nontrivial(want):
                out.nontrivial = True
            # decode -> encode gives back a canonical encoding of the same item
            try:
                re = bytes(obj.encode(order, ptr))
                if R.decode(tab, re, 0, order, ptr) != (want, len(re)):
                    out.fail("C14.roundtrip", "reencode-differs",
                             f"{data.hex()} -> {obj!r} -> {re.hex()}", sig)
            except Exception as e:
                out.fail("C14.roundtrip", "reencode-raised:" + type(e).__name__,
                         f"{data.hex()} -> {obj!r}: {e!r}", sig)
    else:
        if (
            first in modelled_bytes(tab)
            and wstate != "nested-unknown"
            and (wstate != "ok" or _all_modelled(tab, want))
        ):
            out.fail("C14.model", "rejects-modelled-opcode",
                     f"{data.hex()} ({R.opcode_names(tab).get(first)})", sig)


def _all_modelled(tab, item):
    name, ops = item
    if name not in REV[tab]:
        return False
    return all(
        _all_modelled("op", x) for v in ops if isinstance(v, list) for x in v
    )


def _eval_seq(spec, out):
    from gtirb_rewriting.dwarf.cfi import parse_cfi_instructions

    order, ptr = _ctxof(spec)
    objs, encs, items = [], [], []
    for o in spec["items"]:
        item = _to_ref("cfa", o)
        try:
            R.encode("cfa", item, order, ptr)
            obj = _to_lib("cfa", o)
            enc = bytes(obj.encode(order, ptr))
        except (R.OutOfRange, _Reject, ValueError):
            continue
        objs.append(obj)
        encs.append(enc)
        items.append(item)
    out.nontrivial = len(objs) >= 2 and any(_item_nontrivial(i) for i in items)
    out.classes.append(f"seq-len={min(len(objs), 4)}")
    data = b"".join(encs)
    try:
        got = list(parse_cfi_instructions(data, order, ptr))
    except Exception as e:
        out.fail("C14.parse", "raised:" + exc_kind(e), f"{data.hex()}: {e!r}")
        return
    if got != objs or [type(a) for a in got] != [type(a) for a in objs]:
        out.fail("C14.parse", "sequence-differs",
                 f"{data.hex()}: {got!r} != {objs!r}")


def _eval_const(spec, out):
    from gtirb_rewriting.dwarf.expr import make_const_op

    v = spec["v"]
    if not isinstance(v, int) or isinstance(v, bool):
        raise BadSpec("v")
    out.nontrivial = _boundary(v)
    in_range = -(1 << 63) <= v < (1 << 64)
    out.classes.append("const-in-range" if in_range else "const-out-of-range")
    try:
        op = make_const_op(v)
    except ValueError:
        if in_range:
            out.fail("C14.const", "rejected-in-range", f"{v}")
        return
    except Exception as e:
        out.fail("C14.const", "wrong-exception:" + exc_kind(e), f"{v}: {e!r}")
        return
    if not in_range:
        out.fail("C14.const", "accepted-out-of-range", f"{v} -> {op!r}")
        return
    try:
        enc = bytes(op.encode("little", 8))
        item, n = R.decode("op", enc, 0, "little", 8)
    except Exception as e:
        out.fail("C14.const", "undecodable", f"{v} -> {op!r}: {e!r}")
        return
    cands = R.const_candidates(v)
    names = {c[0] for c in cands}
    if item[0] not in names or item[1] != [v] or n != len(enc):
        out.fail("C14.const", "wrong-value", f"{v} -> {op!r} = {item}")
        return
    best = min(c[2] for c in cands)
    if len(enc) != best:
        out.fail("C14.const", "not-shortest",
                 f"{v} -> {op!r} ({len(enc)} bytes), shortest is {best}")


def render(spec):
    return spec


# ---------------------------------------------------------------------------
# exhaustive parts
# ---------------------------------------------------------------------------
def _field_values(kind, ptr):
    if kind == "fused":
        return list(range(-1, 66))
    return BOUNDARY


def _exhaustive_chunk(args):
    tab, classes = args
    import itertools

    from ..core import setup_repo_path

    setup_repo_path()
    rec = Recorder()
    me = __import__("vp.props.c14", fromlist=["x"])
    for cls in classes:
        kinds = _kinds(tab, cls)
        doms = []
        for k in kinds:
            if k == R.BLOCK:
                doms.append([[], [{"cls": "OpBReg", "vals": [7, -8]}, {"cls": "OpDeref", "vals": []}]])
            else:
                doms.append(_field_values(k, 8))
        if len(doms) == 2 and all(len(d) > 100 for d in doms):
            # two wide fields: full cross product is 4e5; use a diagonal + axes
            a, b = doms
            combos = [(x, 1) for x in a] + [(1, y) for y in b] + list(zip(a, b))
        else:
            combos = itertools.product(*doms)
        for vals in combos:
            for order in ("little", "big"):
                for ptr in (4, 8):
                    spec = {"k": "obj", "tab": tab, "order": order, "ptr": ptr,
                            "tail": [0x80], "obj": {"cls": cls, "vals": list(vals)}}
                    rec.run(me, spec)
        # blocks whose ULEB128 length prefix needs two and three bytes
        # (127/128 and 16383/16384 are the boundaries), other operands fixed
        if R.BLOCK in kinds:
            one = {"cls": "OpDeref", "vals": []}   # any one-byte operation
            for n in (127, 128, 16383, 16384):
                vals = [[one] * n if k == R.BLOCK else 1 for k in kinds]
                for order, ptr in (("little", 8), ("big", 4)):
                    rec.run(me, {"k": "obj", "tab": tab, "order": order, "ptr": ptr,
                                 "tail": [0x80], "obj": {"cls": cls, "vals": vals}})
    # all 256 first bytes x boundary-valued reference encodings + raw tails
    names = R.opcode_names(tab)
    if classes and classes[0] == sorted(TABLE_OF[tab])[0]:
        for first in range(256):
            for order in ("little", "big"):
                for ptr in (4, 8):
                    tails = [[0] * 12, [0xFF] * 11 + [0x7F], [0x80, 0x01] * 6,
                             [1, 2, 3, 4, 5, 6, 7, 8, 9, 10, 11, 12], [0x7F] * 12]
                    for t in tails:
                        rec.run(me, {"k": "bytes", "tab": tab, "order": order,
                                     "ptr": ptr, "data": [first] + t})
        rec.exhaustive_parts.append(
            f"{tab}: all 256 first bytes x 5 operand tails x 2 byte orders x 2 pointer sizes")
    return rec.to_dict()


def extra(tier, seed, jobs):
    from ..core import pool_map

    tasks = []
    for tab in ("op", "cfa"):
        classes = sorted(TABLE_OF[tab])
        step = max(1, len(classes) // 8)
        for i in range(0, len(classes), step):
            tasks.append((tab, classes[i:i + step]))
    parts = pool_map(_exhaustive_chunk, tasks, jobs)
    r = Recorder()
    r.exhaustive_parts.append(
        "every modelled class x boundary operand values {+-2^k+{-1,0,1}, k<=70} "
        "(fused fields -1..65) x 2 byte orders x 2 pointer sizes")
    # make_const_op over all boundary values in and around [-2^63, 2^64)
    me = __import__("vp.props.c14", fromlist=["x"])
    for v in BOUNDARY + list(range(-70000, 70000, 1 if tier == "thorough" else 7)):
        r.run(me, {"k": "const", "v": v})
    parts.append(r.to_dict())
    return parts
