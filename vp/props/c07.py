"""C07 - each registered insertion lands exactly once, exactly where asked."""

import re

from hypothesis import strategies as st

from .. import isa as I
from .. import listing as Lm
from ..core import BadSpec, Outcome, exc_kind

ID = "C07"
TECHNIQUE = ("property-based testing (Hypothesis): generated passes register marker patches through every scope kind; an "
             "independent scope interpreter over the input listing predicts the designated (block, offset) set, and the "
             "recorded InsertionContexts and the marker bytes in the output are compared with it")
RULE = ("a case is a generated listing (with or without function tables, optional 'main' function and entry point) plus "
        "1-4 passes run through PassManager, each registering 1-4 (scope, marker patch) pairs over AllBlocksScope "
        "(ENTRY/EXIT/ANYWHERE, exclude sets), AllFunctionsScope (ENTRY/EXIT x block position, name sets) and "
        "SingleBlockScope, with literal / regex / MAIN_NAME / ENTRYPOINT_NAME filters of 0-3 elements (an empty filter selects / excludes nothing). Every invocation emits a marker "
        "instruction with a fresh id and records its InsertionContext. Checked: invocations == designated set (exactly "
        "once each), context block/offset/function, each marker exactly once in the output bytes at the predicted "
        "position, same-location markers in global registration order, UnresolvableScopeError for function scopes "
        "without functions. Non-trivial = >=2 registrations hit one block, or a filter excludes at least one function "
        "and keeps at least one; distinct by spec hash.")
ASSUMPTIONS = [
    "exit blocks follow gtirb_functions' documented definition (a return edge, or a non-call edge leaving the function)",
    "ANYWHERE may resolve to any instruction boundary not after the terminator; the position actually reported in the "
    "InsertionContext is then used to predict the bytes",
]


def calibrate():
    I.calibrate()


_small = st.integers(0, 30)
_names = st.lists(st.one_of(
    st.fixed_dictionaries({"lit": _small}), st.fixed_dictionaries({"re": st.integers(0, 3)}),
    st.just("main"), st.just("entry")), min_size=0, max_size=3)   # (an empty filter selects / excludes nothing)
_bpos = st.sampled_from(["entry", "exit", "anywhere"])
_scope = st.one_of(
    st.fixed_dictionaries({"k": st.just("all_blocks"), "pos": _bpos, "excl": st.one_of(st.none(), _names)}),
    st.fixed_dictionaries({"k": st.just("all_funcs"), "fpos": st.sampled_from(["entry", "exit"]), "bpos": _bpos,
                           "names": st.one_of(st.none(), _names)}),
    st.fixed_dictionaries({"k": st.just("single"), "b": _small, "pos": _bpos}),
    st.fixed_dictionaries({"k": st.just("single"), "b": _small, "pos": _bpos}),
)
REGEXES = [r"f0_.*", r"f\d_[01]", r"main|f0_2", r".*_3"]


def strategy(tier):
    base = Lm.case_st(tier, pairs=[p for p in I.PAIRS], max_edits=1, min_edits=0)
    passes = st.lists(st.lists(_scope, min_size=1, max_size=4), min_size=1, max_size=4)
    return st.tuples(base, passes, st.one_of(st.none(), st.integers(0, 3))).map(
        lambda t: {**t[0], "edits": [], "passes": t[1], "main": t[2]})


def budget(tier):
    return 20_000 if tier == "quick" else 300_000


def _match(case, fname, is_entry_func, filt):
    for f in filt:
        if f == "main":
            if fname == "main":
                return True
        elif f == "entry":
            if is_entry_func:
                return True
        elif "re" in f:
            if re.fullmatch(REGEXES[f["re"] % len(REGEXES)], fname):
                return True
        else:
            names = sorted(case.funcs)
            if names and names[f["lit"] % len(names)] == fname:
                return True
    return False


def _lib_filter(case, filt):
    import gtirb_rewriting as gr

    out = set()
    names = sorted(case.funcs)
    for f in filt:
        if f == "main":
            out.add(gr.scopes.MAIN_NAME)
        elif f == "entry":
            out.add(gr.scopes.ENTRYPOINT_NAME)
        elif "re" in f:
            out.add(re.compile(REGEXES[f["re"] % len(REGEXES)]))
        elif names:
            out.add(names[f["lit"] % len(names)])
        else:
            out.add("no_such_function")
    return out


def _exit_blocks(case):
    """gidx of exit blocks per function, from the listing."""
    out = set()
    for b in case.blocks:
        if not b.code or b.func is None:
            continue
        last = b.units[-1]
        nxt = Lm._next_code_block(case, b.gidx)
        ex = False
        if last.kind == "ret" or last.kind == "ijmp":
            ex = True
        if last.kind in ("jmp", "jcc"):
            if last.sym in case.externs or case.blocks[case.label_block[last.sym][0]].func != b.func:
                ex = True
        if last.kind in I.FALLS and nxt is not None and case.blocks[nxt].func != b.func:
            ex = True
        if ex:
            out.add(b.gidx)
    return out


def _offsets(case, b, pos):
    """allowed unit indices for a block position"""
    nu = len(b.units)
    exit_i = nu - 1 if b.units[-1].kind in I.TRANSFER else nu
    if pos == "entry":
        return {0}
    if pos == "exit":
        return {exit_i}
    return set(range(0, exit_i + 1))


def designated(case, scope):
    """-> {gidx: allowed unit indices} or 'unresolvable'"""
    code = [b for b in case.blocks if b.code]
    entry_funcs = {case.blocks[case.entry_block].func} if case.entry_block is not None and \
        case.entry_block in [g for f in case.entries.values() for g in f] else set()
    res = {}
    k = scope["k"]
    if k == "single":
        if not code:
            return {}
        b = code[scope["b"] % len(code)]
        res[b.gidx] = _offsets(case, b, scope["pos"])
    elif k == "all_blocks":
        for b in code:
            if b.func is not None and scope["excl"] is not None and \
                    _match(case, case.fname(b.func), b.func in entry_funcs, scope["excl"]):
                continue
            res[b.gidx] = _offsets(case, b, scope["pos"])
    else:
        if not case.funcs:
            return "unresolvable"
        exits = _exit_blocks(case)
        for b in code:
            if b.func is None:
                continue
            if scope["names"] is not None and not _match(case, case.fname(b.func), b.func in entry_funcs, scope["names"]):
                continue
            if scope["fpos"] == "entry":
                ok = b.gidx in case.entries[b.func]
            else:
                ok = b.gidx in exits
            if ok:
                res[b.gidx] = _offsets(case, b, scope["bpos"])
    return res


def evaluate(spec):
    import gtirb_rewriting as gr

    out = Outcome()
    case = Lm.Case(spec)
    built = Lm.build(case)
    m = built.module
    code = [b for b in case.blocks if b.code]
    inv = []       # (marker id, global reg index, ctx)
    regs = []      # global registration list: (scope spec, lib scope)
    unresolvable_seen = []
    BP = {"entry": gr.BlockPosition.ENTRY, "exit": gr.BlockPosition.EXIT, "anywhere": gr.BlockPosition.ANYWHERE}
    FP = {"entry": gr.FunctionPosition.ENTRY, "exit": gr.FunctionPosition.EXIT}
    counter = [0]
    tab = case.tab

    def mk_patch(ridx):
        class Marker(gr.Patch):
            def __init__(self):
                super().__init__(gr.Constraints())

            def get_asm(self, ctx):
                counter[0] += 1
                mid = 0x100 + counter[0]
                inv.append((mid, ridx, ctx))
                return I.render(case.isa, tab["mark"], None, mid) + "\n"

        return Marker()

    class P(gr.Pass):
        def __init__(self, scopes):
            self.scopes = scopes

        def begin_module(self, module, functions, ctx):
            for sc in self.scopes:
                k = sc["k"]
                if k == "single":
                    if not code:
                        continue
                    lib = gr.SingleBlockScope(built.blocks[code[sc["b"] % len(code)].gidx], BP[sc["pos"]])
                elif k == "all_blocks":
                    lib = gr.AllBlocksScope(BP[sc["pos"]], None if sc["excl"] is None else _lib_filter(case, sc["excl"]))
                else:
                    lib = gr.AllFunctionsScope(FP[sc["fpos"]], BP[sc["bpos"]],
                                               None if sc["names"] is None else _lib_filter(case, sc["names"]))
                ridx = len(regs)
                regs.append(sc)
                try:
                    ctx.register_insert(lib, mk_patch(ridx))
                except gr.rewriting.UnresolvableScopeError:
                    unresolvable_seen.append(ridx)

    pm = gr.PassManager()
    try:
        for p in spec["passes"]:
            pm.add(P(p))
    except (KeyError, TypeError) as e:
        raise BadSpec(repr(e))
    try:
        pm.run(built.ir)
    except Exception as e:
        out.fail("C07.apply-raises", exc_kind(e), repr(e)[:300])
        return out
    # ---- designated sets ---------------------------------------------------
    want = {}
    hits_per_block = {}
    filtered = False
    for ridx, sc in enumerate(regs):
        d = designated(case, sc)
        if d == "unresolvable":
            if ridx not in unresolvable_seen:
                out.fail("C07.unresolvable", "no-error", f"registration {ridx}: {sc}")
            continue
        if ridx in unresolvable_seen:
            out.fail("C07.unresolvable", "unexpected-error", f"registration {ridx}: {sc}")
            continue
        for g, offs in d.items():
            want[(ridx, g)] = offs
            hits_per_block[g] = hits_per_block.get(g, 0) + 1
        if sc["k"] != "single" and (sc.get("excl") or sc.get("names")) and case.funcs:
            nf = {case.blocks[g].func for g in d if case.blocks[g].func}
            if nf and len(nf) < len(case.funcs):
                filtered = True
    out.nontrivial = any(v >= 2 for v in hits_per_block.values()) or filtered
    out.classes = [f"isa={case.isa}/{case.fmt}", "functions" if case.funcs else "no-functions",
                   f"passes={len(spec['passes'])}"] + sorted({"scope:" + sc["k"] for sc in regs})
    if filtered:
        out.classes.append("filter-splits-functions")
    # ---- invocations -------------------------------------------------------
    rev = {id(blk): g for g, blk in built.blocks.items()}
    got = {}
    placed = {}
    for mid, ridx, ctx in inv:
        g = rev.get(id(ctx.block))
        if g is None:
            out.fail("C07.context", "block-not-original", f"marker {mid}")
            continue
        if (ridx, g) in got:
            out.fail("C07.once", "applied-twice", f"registration {ridx} ({regs[ridx]}) in block {g}", regs[ridx]["k"])
        got[(ridx, g)] = ctx
        b = case.blocks[g]
        # offset -> unit index
        try:
            ui = (b.uoffs + [b.size]).index(ctx.offset)
        except ValueError:
            out.fail("C07.position", "not-an-instruction-boundary", f"registration {ridx} block {g} offset {ctx.offset}")
            continue
        placed[(ridx, g)] = (ui, mid)
        if (ridx, g) in want and ui not in want[(ridx, g)]:
            out.fail("C07.position", "wrong-offset",
                     f"registration {ridx} ({regs[ridx]}) block {g}: unit {ui}, allowed {sorted(want[(ridx, g)])}",
                     regs[ridx].get("pos") or regs[ridx].get("bpos"))
        fn = ctx.function.get_name() if ctx.function is not None else None
        wf = case.fname(b.func) if b.func else None
        if fn != wf:
            out.fail("C07.context", "wrong-function", f"registration {ridx} block {g}: {fn} expected {wf}")
        if ctx.module is not m:
            out.fail("C07.context", "wrong-module", "")
    for key in sorted(set(want) - set(got)):
        out.fail("C07.once", "not-applied", f"registration {key[0]} ({regs[key[0]]}) should hit block {key[1]}", regs[key[0]]["k"])
    for key in sorted(set(got) - set(want)):
        out.fail("C07.once", "applied-to-undesignated-block", f"registration {key[0]} ({regs[key[0]]}) hit block {key[1]}", regs[key[0]]["k"])
    if out.failures:
        return out
    # ---- bytes: markers exactly once, at the predicted place, in order -------
    edits = []
    for (ridx, g), (ui, mid) in sorted(placed.items()):
        edits.append(Lm.Edit(ridx, "insert", g, ui, 0, patch={"toks": [{"t": "mark", "sym": 0, "imm": mid}]}))
    case.edits = edits
    exp = Lm.Expected(case)
    obs = Lm.Observed(built)
    for si, (name, _) in enumerate(case.sections):
        if exp.sec_bytes[si] != obs.sec_bytes[si]:
            out.fail("C07.bytes", "markers-misplaced-or-misordered",
                     f"section {name}: expected {exp.sec_bytes[si].hex()} got {obs.sec_bytes[si].hex()}")
    return out


def render(spec):
    d = Lm.describe(Lm.Case(spec))
    d.pop("edits", None)
    d["passes"] = spec.get("passes")
    d["main"] = spec.get("main")
    return d
