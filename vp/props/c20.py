"""
C20 - internal containers behave like their simple abstract models.

Model-based testing over generated operation histories.  A history is a list
of op dicts; `Sim.step(op)` applies it to the real container and to the model
and returns a mismatch description or None.  The same Sim classes are driven
(a) by a list-of-ops Hypothesis strategy (spec-first, replayable) and (b) by
Hypothesis RuleBasedStateMachines (extra()), which record the history they
executed so that a failure is again a replayable spec.
"""

import uuid

from hypothesis import strategies as st

from ..core import BadSpec, Outcome, Recorder, exc_kind

ID = "C20"
TECHNIQUE = (
    "model-based testing of operation histories (Hypothesis list-of-ops "
    "strategies and RuleBasedStateMachine) against abstract reference models"
)
RULE = (
    "a case is a history of 1-60 public operations on one container "
    "(ReferenceCache, ReturnEdgeCache incl. make_return_cache contexts, "
    "BlockOrdering, OffsetMapping, IdentitySet) applied to the real object and "
    "to an abstract model (dict of referents, CFG scan, list of chains, dict "
    "of dicts, dict by id); every answer and, after every step, the observable "
    "state are compared. Non-trivial = history of >=5 effective steps that, "
    "for ReferenceCache, contains a retarget whose source already had indirect "
    "references (a chain), for the others contains both mutating and querying "
    "operations after a removal; distinct by spec hash."
)
ASSUMPTIONS = [
    "generated histories respect the documented preconditions: no direct "
    "assignment of Symbol.referent while a symbol is indirect; no duplicate "
    "blocks inside one insert call; plain (non-identity) iterables are used "
    "only with IdentitySet operators whose containment test is on the "
    "IdentitySet side",
    "OffsetMapping.clear() is not exercised (the property does not say whether "
    "emptied elements remain keys)",
]


def _mk_module(nblocks, nsyms, sym_targets):
    import gtirb

    ir = gtirb.IR()
    m = gtirb.Module(name="m", isa=gtirb.Module.ISA.X64,
                     file_format=gtirb.Module.FileFormat.ELF, ir=ir)
    s = gtirb.Section(name=".text", module=m)
    bi = gtirb.ByteInterval(contents=b"\x90" * (nblocks * 2), address=0x1000, section=s)
    blocks = [gtirb.CodeBlock(offset=2 * i, size=2, byte_interval=bi) for i in range(nblocks)]
    syms = []
    for i in range(nsyms):
        tgt, at_end = sym_targets[i % len(sym_targets)] if sym_targets else (None, False)
        sym = gtirb.Symbol(name=f"s{i}", module=m)
        if tgt is not None:
            sym.referent = blocks[tgt % nblocks]
            sym.at_end = bool(at_end)
        syms.append(sym)
    return ir, m, blocks, syms


# ---------------------------------------------------------------------------
class RefCacheSim:
    """ReferenceCache vs dict symbol -> (block index | None, at_end)."""

    def __init__(self, params):
        from gtirb_rewriting._modify.cache import ReferenceCache

        self.nb = 2 + params.get("nblocks", 3) % 7
        self.ns = params.get("nsyms", 4) % 11
        targets = [(t.get("b"), t.get("e", False)) for t in params.get("targets", [])] or [(0, False)]
        self.ir, self.m, self.blocks, self.syms = _mk_module(self.nb, self.ns, targets)
        self.cache = ReferenceCache()
        self.model = {}
        for i, s in enumerate(self.syms):
            self.model[i] = (None, False) if s.referent is None else (self.blocks.index(s.referent), s.at_end)
        self.effective = 0
        self.indirect_syms = set()  # symbols the model knows were made indirect
        self.chain = False
        self.classes = set()

    def _b(self, i):
        return self.blocks[i % self.nb]

    def _refs_of(self, bi):
        return {i for i, (b, _e) in self.model.items() if b == bi}

    def step(self, op):
        o = op.get("op")
        if o == "retarget":
            a, b, e = op["a"] % self.nb, op["b"] % self.nb, bool(op["e"])
            moved = self._refs_of(a)
            if moved & self.indirect_syms:
                self.chain = True
            self.cache.retarget_references(self.blocks[a], self.blocks[b], e)
            for i in moved:
                self.model[i] = (b, e)
            self.indirect_syms |= moved
            self.effective += bool(moved)
            self.classes.add("retarget-self" if a == b else "retarget")
        elif o == "get_referent":
            if not self.ns:
                return None
            i = op["s"] % self.ns
            got = self.cache.get_referent(self.syms[i])
            self.indirect_syms.discard(i)
            self.effective += 1
            return self._check_sym(i, got, "get_referent")
        elif o == "set_referent":
            if not self.ns:
                return None
            i = op["s"] % self.ns
            b = None if op.get("b") is None else op["b"] % self.nb
            e = bool(op["e"])
            self.cache.set_referent(self.syms[i], None if b is None else self.blocks[b], e)
            self.model[i] = (b, e)
            self.indirect_syms.discard(i)
            self.effective += 1
            return self._check_direct(i, "set_referent")
        elif o == "get_references":
            b = op["b"] % self.nb
            k = op.get("k")  # None: consume fully; int: abandon after k items
            want = self._refs_of(b)
            gen = self.cache.get_references(self.blocks[b])
            got = []
            if k is None:
                got = list(gen)
            else:
                for _ in range(k):
                    try:
                        got.append(next(gen))
                    except StopIteration:
                        k = None
                        break
                gen.close()
                self.classes.add("abandoned-iteration")
            idx = [self.syms.index(s) for s in got]
            if len(set(idx)) != len(idx):
                return f"get_references(b{b}) yielded a symbol twice: {idx}"
            if k is None and set(idx) != want:
                return f"get_references(b{b}) = {sorted(idx)}, model {sorted(want)}"
            if not set(idx) <= want:
                return f"get_references(b{b}) yielded {sorted(idx)}, model {sorted(want)}"
            for i in idx:
                self.indirect_syms.discard(i)
                r = self._check_direct(i, "get_references")
                if r:
                    return r
            self.effective += 1
        elif o == "check_all":
            for i in range(self.ns):
                got = self.cache.get_referent(self.syms[i])
                r = self._check_sym(i, got, "get_referent(all)")
                if r:
                    return r
            self.indirect_syms.clear()
            self.effective += 1
        elif o == "apply":
            self.cache.apply()
            self.indirect_syms.clear()
            return self._check_all_direct("apply")
        elif o == "with_exit":
            # leave a `with` block normally or by exception: both must apply
            class Boom(Exception):
                pass

            try:
                with self.cache:
                    if op.get("raise"):
                        raise Boom()
            except Boom:
                self.classes.add("with-exception")
            self.indirect_syms.clear()
            return self._check_all_direct("with-exit")
        elif o == "new_symbol":
            import gtirb

            b = op["b"] % self.nb
            e = bool(op["e"])
            s = gtirb.Symbol(name=f"n{len(self.syms)}", module=self.m,
                             payload=self.blocks[b], at_end=e)
            self.syms.append(s)
            self.model[self.ns] = (b, e)
            self.ns += 1
        else:
            raise BadSpec(f"op {o}")
        return None

    def _check_sym(self, i, got, what):
        b, e = self.model[i]
        want = None if b is None else self.blocks[b]
        if got is not want:
            gi = self.blocks.index(got) if got in self.blocks else got
            return f"{what}(s{i}) returned block {gi}, model says {b}"
        return self._check_direct(i, what)

    def _check_direct(self, i, what):
        b, e = self.model[i]
        s = self.syms[i]
        want = None if b is None else self.blocks[b]
        if s.referent is not want:
            return f"after {what}: s{i}.referent is {s.referent!r}, model block {b}"
        if want is not None and s.at_end != e:
            return f"after {what}: s{i}.at_end={s.at_end}, model {e}"
        return None

    def _check_all_direct(self, what):
        for i in range(self.ns):
            r = self._check_direct(i, what)
            if r:
                return r
        for bi, blk in enumerate(self.blocks):
            if {self.syms.index(s) for s in blk.references} != self._refs_of(bi):
                return f"after {what}: block {bi}.references differs from model"
        return None

    def finish(self):
        self.cache.apply()
        return self._check_all_direct("final apply")

    def nontrivial(self):
        return self.effective >= 5 and self.chain


# ---------------------------------------------------------------------------
def _edge_types():
    import gtirb

    T = gtirb.EdgeType
    return [None, T.Branch, T.Call, T.Fallthrough, T.Return, T.Syscall, T.Sysret]


class ReturnCacheSim:
    """ReturnEdgeCache (optionally inside make_return_cache) vs CFG scan."""

    def __init__(self, params):
        import gtirb

        from gtirb_rewriting._modify.cache import ReturnEdgeCache

        self.ir, self.m, self.blocks, _ = _mk_module(2 + params.get("nblocks", 2) % 4, 0, [])
        self.proxies = [gtirb.ProxyBlock(module=self.m) for _ in range(1 + params.get("nproxies", 1) % 3)]
        self.nodes = self.blocks + self.proxies
        self.ctx = bool(params.get("ctx"))
        self.types = _edge_types()
        self.model = set()
        self.effective = 0
        self.removed = False
        self.queried_after_removal = False
        self.classes = set()
        self.cm = None
        self.orig = None
        for e in params.get("initial", []):
            self.model.add(self._edge(e))
        if self.ctx:
            from gtirb_rewriting._modify.cache import make_return_cache

            self.orig = self.ir.cfg
            for e in self.model:
                self.orig.add(e)
            self.cm = make_return_cache(self.ir)
            self.cache = self.cm.__enter__()
            self.expect_error = None
            self.classes.add("context")
        else:
            self.cache = ReturnEdgeCache(list(self.model))

    def _edge(self, e):
        import gtirb

        n = len(self.nodes)
        src = self.nodes[e["s"] % n]
        dst = self.nodes[e["t"] % n]
        t = self.types[e["ty"] % len(self.types)]
        label = None if t is None else gtirb.Edge.Label(t, bool(e.get("c")), bool(e.get("d", True)))
        return gtirb.Edge(src, dst, label)

    def step(self, op):
        import gtirb

        o = op.get("op")
        c = self.cache
        if o == "add":
            e = self._edge(op["e"])
            c.add(e)
            self.model.add(e)
        elif o == "discard":
            e = self._edge(op["e"])
            if e not in self.model:
                self.classes.add("discard-absent")
            else:
                self.removed = True
            c.discard(e)
            self.model.discard(e)
        elif o == "remove":
            e = self._edge(op["e"])
            try:
                c.remove(e)
                if e not in self.model:
                    return f"remove of absent edge did not raise KeyError"
            except KeyError:
                if e in self.model:
                    return f"remove of present edge raised KeyError"
            if e in self.model:
                self.removed = True
            self.model.discard(e)
        elif o == "clear":
            c.clear()
            self.removed = self.removed or bool(self.model)
            self.model.clear()
        elif o == "update":
            es = [self._edge(x) for x in op["es"]]
            c.update(es)
            self.model.update(es)
        elif o == "ior":
            es = {self._edge(x) for x in op["es"]}
            c |= es
            if c is not self.cache:
                return "|= rebound the cache"
            self.model |= es
        elif o == "isub":
            es = {self._edge(x) for x in op["es"]}
            c -= es
            self.removed = self.removed or bool(self.model & es)
            self.model -= es
        elif o == "pop":
            if self.model:
                e = c.pop()
                if e not in self.model:
                    return f"pop returned an edge not in the model"
                self.model.discard(e)
                self.removed = True
        elif o == "nested" and self.ctx:
            from gtirb_rewriting._modify.cache import make_return_cache

            with make_return_cache(self.ir) as inner:
                if inner is not self.cache:
                    return "nested make_return_cache returned a different object"
            if self.ir.cfg is not self.cache:
                return "leaving a nested make_return_cache replaced ir.cfg"
            self.classes.add("nested-context")
        elif o in ("nested",):
            pass
        else:
            raise BadSpec(f"op {o}")
        self.effective += 1
        return self.check()

    def check(self):
        import gtirb

        c = self.cache
        if set(c) != self.model:
            return f"edge set differs from model: {len(set(c))} vs {len(self.model)}"
        if len(c) != len(self.model):
            return "len differs"
        if self.removed:
            self.queried_after_removal = True
        for n in self.nodes:
            want = {e for e in self.model
                    if e.source is n and e.label is not None and e.label.type == gtirb.EdgeType.Return}
            wantp = {e for e in want if isinstance(e.target, gtirb.ProxyBlock)}
            if c.block_return_edges(n) != want:
                return f"block_return_edges differs from CFG scan ({len(c.block_return_edges(n))} vs {len(want)})"
            if c.any_return_edges(n) != bool(want):
                return f"any_return_edges={c.any_return_edges(n)} but scan finds {len(want)}"
            if c.block_proxy_return_edges(n) != wantp:
                return f"block_proxy_return_edges differs from CFG scan"
            if set(c.out_edges(n)) != {e for e in self.model if e.source is n}:
                return "out_edges differs"
        return None

    def finish(self, how=None):
        if not self.ctx:
            return self.check()
        from gtirb_rewriting._modify.cache import CFGModifiedError

        how = how or {}
        mode = how.get("mode", 0) % 4
        final = set(self.model)
        import gtirb

        class Boom(Exception):
            pass

        raised = None
        try:
            if mode == 1:  # body raises
                self.classes.add("exit-by-exception")
                if not self.cm.__exit__(Boom, Boom(), None):
                    raised = Boom
            elif mode == 2:  # original object modified
                self.classes.add("exit-original-modified")
                extra = gtirb.Edge(self.proxies[0], self.blocks[0],
                                   gtirb.Edge.Label(gtirb.EdgeType.Syscall, True, False))
                if extra in self.orig:
                    self.orig.discard(extra)
                else:
                    self.orig.add(extra)
                self.cm.__exit__(None, None, None)
            elif mode == 3:  # ir.cfg replaced
                self.classes.add("exit-cfg-replaced")
                self.ir.cfg = gtirb.CFG()
                self.cm.__exit__(None, None, None)
            else:
                self.cm.__exit__(None, None, None)
        except CFGModifiedError:
            raised = CFGModifiedError
        except Exception as e:  # pragma: no cover
            return f"leaving make_return_cache raised {type(e).__name__}: {e}"
        if mode in (2, 3) and raised is not CFGModifiedError:
            return ("original CFG object modified" if mode == 2 else "ir.cfg replaced") + \
                " during the context but no CFGModifiedError on exit"
        if mode == 0 and raised is not None:
            return f"normal exit raised {raised.__name__}"
        if self.ir.cfg is not self.orig:
            return "after the context ir.cfg is not the caller's CFG object"
        if set(self.orig) != final:
            return (f"after the context the caller's CFG has {len(set(self.orig))} edges, "
                    f"the cache had {len(final)}")
        return None

    def nontrivial(self):
        return self.effective >= 5 and self.queried_after_removal


# ---------------------------------------------------------------------------
class BlockOrderingSim:
    """BlockOrdering vs list of chains."""

    def __init__(self, params):
        from gtirb_rewriting._adt import BlockOrdering

        self.nb = 3 + params.get("nblocks", 5) % 10
        _ir, _m, self.blocks, _ = _mk_module(self.nb, 0, [])
        self.real = BlockOrdering()
        self.chains = []
        self.effective = 0
        self.removed = False
        self.readded = False
        self.classes = set()
        self.gone = set()

    def _where(self, i):
        for c in self.chains:
            if i in c:
                return c
        return None

    def _pick(self, idxs):
        out = []
        for i in idxs:
            i %= self.nb
            if i not in out:
                out.append(i)
        return out

    def step(self, op):
        o = op.get("op")
        if o == "add_detached":
            idxs = self._pick(op["bs"])
            blocks = [self.blocks[i] for i in idxs]
            clash = any(self._where(i) for i in idxs)
            try:
                self.real.add_detached_blocks(blocks)
                if clash:
                    return "add_detached_blocks of an ordered block did not raise ValueError"
            except ValueError:
                if not clash:
                    return "add_detached_blocks raised ValueError for unordered blocks"
                self.classes.add("rejected-insert")
                return self.check()
            if idxs:
                self.chains.append(list(idxs))
                if set(idxs) & self.gone:
                    self.readded = True
        elif o == "insert_after":
            a = op["a"] % self.nb
            idxs = self._pick(op["bs"])
            chain = self._where(a)
            if chain is None:
                try:
                    self.real.insert_blocks_after(self.blocks[a], [self.blocks[i] for i in idxs])
                    return "insert_blocks_after an unordered block did not raise"
                except (KeyError, ValueError):
                    return self.check()
            clash = any(self._where(i) for i in idxs)
            try:
                self.real.insert_blocks_after(self.blocks[a], [self.blocks[i] for i in idxs])
                if clash:
                    return "insert_blocks_after with an ordered block did not raise ValueError"
            except ValueError:
                if not clash:
                    return "insert_blocks_after raised ValueError for unordered blocks"
                self.classes.add("rejected-insert")
                return self.check()
            pos = chain.index(a) + 1
            chain[pos:pos] = idxs
            if set(idxs) & self.gone:
                self.readded = True
        elif o == "remove":
            a = op["a"] % self.nb
            chain = self._where(a)
            if chain is None:
                try:
                    self.real.remove_block(self.blocks[a])
                    return "remove_block of an unordered block did not raise KeyError"
                except KeyError:
                    return self.check()
            self.real.remove_block(self.blocks[a])
            chain.remove(a)
            if not chain:
                self.chains.remove(chain)
            self.gone.add(a)
            self.removed = True
        else:
            raise BadSpec(f"op {o}")
        self.effective += 1
        return self.check()

    def check(self):
        for c in self.chains:
            for k, i in enumerate(c):
                want = (c[k - 1] if k > 0 else None, c[k + 1] if k + 1 < len(c) else None)
                p, n = self.real.adjacent_blocks(self.blocks[i])
                got = (None if p is None else self.blocks.index(p),
                       None if n is None else self.blocks.index(n))
                if got != want:
                    return f"adjacent_blocks(b{i}) = {got}, list model says {want}"
        for i in range(self.nb):
            if self._where(i) is None:
                try:
                    self.real.adjacent_blocks(self.blocks[i])
                    return f"adjacent_blocks(b{i}) answered for a block not in the ordering"
                except KeyError:
                    pass
        return None

    def finish(self, how=None):
        return self.check()

    def nontrivial(self):
        return self.effective >= 5 and self.removed


# ---------------------------------------------------------------------------
class OffsetMappingSim:
    """OffsetMapping vs dict of dicts."""

    def __init__(self, params):
        from gtirb_rewriting._adt import OffsetMapping

        _ir, _m, blocks, _ = _mk_module(3, 0, [])
        self.elems = list(blocks) + [uuid.UUID(int=7), uuid.UUID(int=8)]
        self.real = OffsetMapping()
        self.model = {}
        self.subs = []  # (real dict, model dict) created by set-by-element
        self.effective = 0
        self.deleted = False
        self.alias_write = False
        self.classes = set()

    def _off(self, op):
        import gtirb

        e = self.elems[op["e"] % len(self.elems)]
        return e, op["d"] % 5, gtirb.Offset(e, op["d"] % 5)

    def step(self, op):
        import gtirb

        from gtirb_rewriting._adt import OffsetMapping

        o = op.get("op")
        r, m = self.real, self.model
        if o == "set":
            e, d, off = self._off(op)
            r[off] = op["v"]
            m.setdefault(e, {})[d] = op["v"]
        elif o == "set_elem":
            e = self.elems[op["e"] % len(self.elems)]
            rd = {k % 5: v for k, v in op["items"]}
            md = dict(rd)
            r[e] = rd
            m[e] = md
            self.subs.append((rd, md))
        elif o == "alias_write":
            if self.subs:
                rd, md = self.subs[op["i"] % len(self.subs)]
                rd[op["d"] % 5] = op["v"]
                md[op["d"] % 5] = op["v"]
                self.alias_write = True
        elif o == "sub_write":
            e = self.elems[op["e"] % len(self.elems)]
            if e in m:
                r[e][op["d"] % 5] = op["v"]
                m[e][op["d"] % 5] = op["v"]
        elif o == "get":
            e, d, off = self._off(op)
            want = m.get(e, {}).get(d, "<missing>")
            try:
                got = r[off]
            except KeyError:
                got = "<missing>"
            if got != want:
                return f"m[Offset(e{op['e']},{d})] = {got!r}, model {want!r}"
            if r.get(off, "<d>") != m.get(e, {}).get(d, "<d>"):
                return "get(offset, default) differs"
        elif o == "get_elem":
            e = self.elems[op["e"] % len(self.elems)]
            try:
                got = dict(r[e])
            except KeyError:
                got = "<missing>"
            want = dict(m[e]) if e in m else "<missing>"
            if got != want:
                return f"m[e{op['e']}] = {got!r}, model {want!r}"
        elif o == "del":
            e, d, off = self._off(op)
            present = e in m and d in m[e]
            try:
                del r[off]
                if not present:
                    return "del of a missing Offset did not raise KeyError"
            except KeyError:
                if present:
                    return "del of a present Offset raised KeyError"
            if present:
                del m[e][d]
                self.deleted = True
        elif o == "del_elem":
            e = self.elems[op["e"] % len(self.elems)]
            try:
                del r[e]
                if e not in m:
                    return "del of a missing element did not raise KeyError"
            except KeyError:
                if e in m:
                    return "del of a present element raised KeyError"
            if m.pop(e, None):
                self.deleted = True
        elif o == "pop":
            e, d, off = self._off(op)
            present = e in m and d in m[e]
            got = r.pop(off, "<d>")
            want = m[e].pop(d) if present else "<d>"
            if got != want:
                return f"pop(Offset) = {got!r}, model {want!r}"
            if not present:
                try:
                    r.pop(off)
                    return "pop of a missing Offset without default did not raise"
                except KeyError:
                    pass
            else:
                self.deleted = True
        elif o == "pop_elem":
            e = self.elems[op["e"] % len(self.elems)]
            got = r.pop(e, "<d>")
            want = m.pop(e, "<d>")
            if (dict(got) if isinstance(got, dict) else got) != want:
                return f"pop(element) = {got!r}, model {want!r}"
        elif o == "setdefault":
            e, d, off = self._off(op)
            got = r.setdefault(off, op["v"])
            want = m.setdefault(e, {}).setdefault(d, op["v"])
            if got != want:
                return f"setdefault = {got!r}, model {want!r}"
        elif o == "update":
            items = {}
            for x in op["items"]:
                e, d, off = self._off(x)
                items[off] = x["v"]
                m.setdefault(e, {})[d] = x["v"]
            if op.get("as_mapping"):
                r.update(OffsetMapping(items))
            else:
                r.update(items)
        elif o == "popitem":
            if any(m.values()):
                off, v = r.popitem()
                e, d = off.element_id, off.displacement
                if e not in m or d not in m[e] or m[e][d] != v:
                    return f"popitem returned {off!r}: {v!r} which the model does not hold"
                del m[e][d]
                self.deleted = True
            else:
                try:
                    r.popitem()
                    return "popitem on an empty mapping did not raise KeyError"
                except KeyError:
                    pass
        else:
            raise BadSpec(f"op {o}")
        self.effective += 1
        return self.check()

    def check(self):
        import gtirb

        from gtirb_rewriting._adt import OffsetMapping

        r, m = self.real, self.model
        flat = {(e, d): v for e, sub in m.items() for d, v in sub.items()}
        got = {}
        for off in r:
            if not isinstance(off, gtirb.Offset):
                return f"iteration yielded a non-Offset {off!r}"
            if (off.element_id, off.displacement) in got:
                return "iteration yielded an Offset twice"
            got[(off.element_id, off.displacement)] = r[off]
        if got != flat:
            return f"items differ from model: {len(got)} vs {len(flat)}"
        if len(r) != len(flat):
            return f"len = {len(r)}, model {len(flat)}"
        if bool(r) != bool(flat):
            return f"bool = {bool(r)}, model {bool(flat)}"
        for e in self.elems:
            if (e in r) != (e in m):
                return f"element containment differs: {e in r} vs {e in m}"
            for d in range(5):
                if (gtirb.Offset(e, d) in r) != ((e, d) in flat):
                    return f"Offset containment differs at displacement {d}"
        if set(r.node_keys()) != set(m):
            return "node_keys differs"
        other = OffsetMapping({gtirb.Offset(e, d): v for (e, d), v in flat.items()})
        if not (r == other):
            return "mapping is not equal to an OffsetMapping built from its own items"
        if flat:
            (e, d), v = next(iter(flat.items()))
            other[gtirb.Offset(e, d)] = ("different", v)
            if r == other:
                return "mapping equals a mapping with a different value"
        return None

    def finish(self, how=None):
        return self.check()

    def nontrivial(self):
        return self.effective >= 5 and (self.deleted or self.alias_write)


# ---------------------------------------------------------------------------
class IdentitySetSim:
    """IdentitySet vs {id(x): x}."""

    def __init__(self, params):
        from gtirb_rewriting._adt import IdentitySet

        # equal-but-not-identical and unhashable elements
        self.pool = [[1, 2], [1, 2], [1, 2], (1, 2), {"a": 1}, {"a": 1}, "x", [], [], 7.0]
        init = [self.pool[i % len(self.pool)] for i in params.get("initial", [])]
        self.real = IdentitySet(init)
        self.model = {id(x): x for x in init}
        self.effective = 0
        self.removed = False
        self.classes = set()

    def _objs(self, idxs):
        return [self.pool[i % len(self.pool)] for i in idxs]

    def step(self, op):
        from gtirb_rewriting._adt import IdentitySet

        o = op.get("op")
        r, m = self.real, self.model
        if o == "add":
            x = self.pool[op["x"] % len(self.pool)]
            r.add(x)
            m[id(x)] = x
        elif o == "discard":
            x = self.pool[op["x"] % len(self.pool)]
            r.discard(x)
            if m.pop(id(x), None) is not None or id(x) in m:
                self.removed = True
        elif o == "remove":
            x = self.pool[op["x"] % len(self.pool)]
            try:
                r.remove(x)
                if id(x) not in m:
                    return "remove of an absent object did not raise KeyError"
            except KeyError:
                if id(x) in m:
                    return "remove of a present object raised KeyError"
            if id(x) in m:
                del m[id(x)]
                self.removed = True
        elif o == "pop":
            if m:
                x = r.pop()
                if id(x) not in m:
                    return "pop returned an object that was not in the set"
                del m[id(x)]
                self.removed = True
            else:
                try:
                    r.pop()
                    return "pop on an empty set did not raise KeyError"
                except KeyError:
                    pass
        elif o == "clear":
            r.clear()
            m.clear()
        elif o in ("ior", "isub", "ixor", "iand"):
            objs = self._objs(op["xs"])
            other_ids = {id(x): x for x in objs}
            other = IdentitySet(objs) if (op.get("wrap") or o == "iand") else objs
            before = r
            if o == "ior":
                r |= other
                m.update(other_ids)
            elif o == "isub":
                r -= other
                for k in other_ids:
                    m.pop(k, None)
            elif o == "ixor":
                r ^= other
                for k, x in other_ids.items():
                    if k in m:
                        del m[k]
                    else:
                        m[k] = x
            else:
                r &= other
                for k in list(m):
                    if k not in other_ids:
                        del m[k]
            if r is not before:
                return f"in-place operator {o} returned a new object"
            self.removed = True
        elif o in ("or", "and", "sub", "xor"):
            objs = self._objs(op["xs"])
            other_ids = {id(x): x for x in objs}
            other = IdentitySet(objs)
            if o == "or":
                res, want = r | other, set(m) | set(other_ids)
            elif o == "and":
                res, want = r & other, set(m) & set(other_ids)
            elif o == "sub":
                res, want = r - other, set(m) - set(other_ids)
            else:
                res, want = r ^ other, set(m) ^ set(other_ids)
            if not isinstance(res, IdentitySet):
                return f"operator {o} returned {type(res).__name__}"
            if {id(x) for x in res} != want or len(res) != len(want):
                return f"operator {o}: result ids differ from model"
            sub = set(m) <= set(other_ids)
            if (r <= other) != sub:
                return "<= differs from model"
            if (r == other) != (set(m) == set(other_ids)):
                return "== differs from model"
            if r.isdisjoint(other) != (not (set(m) & set(other_ids))):
                return "isdisjoint differs from model"
        else:
            raise BadSpec(f"op {o}")
        self.effective += 1
        return self.check()

    def check(self):
        r, m = self.real, self.model
        items = list(r)
        if len(items) != len(m) or len(r) != len(m):
            return f"len = {len(r)} / iter {len(items)}, model {len(m)}"
        if {id(x) for x in items} != set(m):
            return "iteration yields different objects than the model"
        for x in self.pool:
            if (x in r) != (id(x) in m):
                return f"containment of {x!r} = {x in r}, model {id(x) in m}"
        return None

    def finish(self, how=None):
        return self.check()

    def nontrivial(self):
        return self.effective >= 5 and self.removed


SIMS = {
    "refcache": RefCacheSim,
    "retcache": ReturnCacheSim,
    "ordering": BlockOrderingSim,
    "offsetmap": OffsetMappingSim,
    "idset": IdentitySetSim,
}

# ---------------------------------------------------------------------------
# strategies
# ---------------------------------------------------------------------------
_i = st.integers(0, 20)
_b = st.booleans()
_v = st.integers(0, 3)


def _d(**kw):
    return st.fixed_dictionaries(kw)


def _ops(m):
    if m == "refcache":
        return st.one_of(
            *[_d(op=st.just("retarget"), a=_i, b=_i, e=_b)] * 8,
            _d(op=st.just("get_referent"), s=_i),
            _d(op=st.just("get_referent"), s=_i),
            _d(op=st.just("get_referent"), s=_i),
            _d(op=st.just("set_referent"), s=_i, b=st.one_of(st.none(), _i), e=_b),
            _d(op=st.just("get_references"), b=_i, k=st.one_of(st.none(), st.integers(0, 3))),
            _d(op=st.just("check_all")),
            _d(op=st.just("apply")),
            _d(op=st.just("with_exit"), **{"raise": _b}),
            _d(op=st.just("new_symbol"), b=_i, e=_b),
        )
    edge = _d(s=_i, t=_i, ty=st.sampled_from([4, 4, 4, 0, 1, 2, 3, 5, 6]), c=_b, d=_b)
    edges = st.lists(edge, max_size=4)
    if m == "retcache":
        return st.one_of(
            _d(op=st.just("add"), e=edge), _d(op=st.just("add"), e=edge),
            _d(op=st.just("discard"), e=edge), _d(op=st.just("remove"), e=edge),
            _d(op=st.just("clear")), _d(op=st.just("update"), es=edges),
            _d(op=st.just("ior"), es=edges), _d(op=st.just("isub"), es=edges),
            _d(op=st.just("pop")), _d(op=st.just("nested")),
        )
    bs = st.lists(_i, max_size=4)
    if m == "ordering":
        return st.one_of(
            _d(op=st.just("add_detached"), bs=bs),
            _d(op=st.just("insert_after"), a=_i, bs=bs),
            _d(op=st.just("insert_after"), a=_i, bs=bs),
            _d(op=st.just("remove"), a=_i),
        )
    if m == "offsetmap":
        off = dict(e=_i, d=_i)
        item = _d(v=_v, **off)
        return st.one_of(
            _d(op=st.just("set"), v=_v, **off),
            _d(op=st.just("set"), v=_v, **off),
            _d(op=st.just("set_elem"), e=_i, items=st.lists(st.tuples(_i, _v).map(list), max_size=3)),
            _d(op=st.just("alias_write"), i=_i, d=_i, v=_v),
            _d(op=st.just("sub_write"), e=_i, d=_i, v=_v),
            _d(op=st.just("get"), **off), _d(op=st.just("get_elem"), e=_i),
            _d(op=st.just("del"), **off), _d(op=st.just("del_elem"), e=_i),
            _d(op=st.just("pop"), **off), _d(op=st.just("pop_elem"), e=_i),
            _d(op=st.just("setdefault"), v=_v, **off),
            _d(op=st.just("update"), items=st.lists(item, max_size=3), as_mapping=_b),
            _d(op=st.just("popitem")),
        )
    if m == "idset":
        xs = st.lists(_i, max_size=4)
        return st.one_of(
            _d(op=st.just("add"), x=_i), _d(op=st.just("add"), x=_i),
            _d(op=st.just("discard"), x=_i), _d(op=st.just("remove"), x=_i),
            _d(op=st.just("pop")), _d(op=st.just("clear")),
            _d(op=st.sampled_from(["ior", "isub", "ixor", "iand"]), xs=xs, wrap=_b),
            _d(op=st.sampled_from(["or", "and", "sub", "xor"]), xs=xs),
        )
    raise AssertionError(m)


def _params(m):
    if m == "refcache":
        return _d(nblocks=_i, nsyms=_i,
                  targets=st.lists(_d(b=st.one_of(st.none(), _i), e=_b), min_size=1, max_size=6))
    if m == "retcache":
        edge = _d(s=_i, t=_i, ty=st.sampled_from([4, 4, 0, 1, 2, 3]), c=_b, d=_b)
        return _d(nblocks=_i, nproxies=_i, ctx=_b, initial=st.lists(edge, max_size=4))
    if m == "ordering":
        return _d(nblocks=_i)
    if m == "idset":
        return _d(initial=st.lists(_i, max_size=4))
    return _d()


def strategy(tier):
    n = 25 if tier == "quick" else 120

    def hist(m):
        return _d(m=st.just(m), params=_params(m),
                  ops=st.lists(_ops(m), min_size=1, max_size=n),
                  end=_d(mode=st.integers(0, 3)))

    return st.sampled_from(["refcache", "refcache", "retcache", "ordering", "offsetmap", "idset"]).flatmap(hist)


def budget(tier):
    return 60_000 if tier == "quick" else 1_500_000


def evaluate(spec):
    out = Outcome()
    try:
        m = spec["m"]
        cls = SIMS[m]
        ops = spec["ops"]
        params = spec.get("params", {})
    except (KeyError, TypeError):
        raise BadSpec("history")
    out.classes.append("container=" + m)
    try:
        sim = cls(params)
    except (KeyError, TypeError, AttributeError) as e:
        raise BadSpec(f"params: {e!r}")
    err = None
    step_no = -1
    opname = "init"
    try:
        for step_no, op in enumerate(ops):
            opname = op.get("op", "?")
            try:
                err = sim.step(op)
            except BadSpec:
                raise
            except (KeyError, TypeError) as e:
                # distinguish malformed op dicts from container errors
                if isinstance(e, KeyError) and e.args and e.args[0] in ("a", "b", "e", "s", "x", "xs", "es", "bs", "d", "v", "i", "items", "k"):
                    raise BadSpec(f"op field {e}")
                raise
            if err:
                break
        if not err:
            opname = "finish"
            err = sim.finish(spec.get("end")) if m != "refcache" else sim.finish()
    except BadSpec:
        raise
    except AssertionError as e:
        out.fail(f"C20.{m}", "raised:" + exc_kind(e), f"step {step_no} ({opname}): {e!r}", opname)
        err = None
    except Exception as e:
        out.fail(f"C20.{m}", "raised:" + exc_kind(e), f"step {step_no} ({opname}): {e!r}", opname)
        err = None
    if err:
        out.fail(f"C20.{m}", "model-mismatch", f"step {step_no} ({opname}): {err}", opname)
    out.nontrivial = sim.nontrivial()
    out.classes.extend(f"{m}:{c}" for c in sorted(sim.classes))
    if m == "refcache" and sim.chain:
        out.classes.append("refcache:chain")
    return out


def render(spec):
    return {"container": spec["m"], "params": spec.get("params"),
            "history": [" ".join(f"{k}={v}" for k, v in sorted(op.items(), key=lambda kv: (kv[0] != "op", kv[0])))
                        for op in spec["ops"]][:40]}


# ---------------------------------------------------------------------------
# Hypothesis stateful machines (same Sims, state-dependent rule selection)
# ---------------------------------------------------------------------------
def _machine_chunk(args):
    m, seed, n_examples, steps = args
    import hypothesis
    from hypothesis import HealthCheck, Phase, settings
    from hypothesis.stateful import (RuleBasedStateMachine, initialize, invariant,
                                     precondition, rule, run_state_machine_as_test)

    from ..core import setup_repo_path

    setup_repo_path()
    rec = Recorder()
    me = __import__("vp.props.c20", fromlist=["x"])

    class Machine(RuleBasedStateMachine):
        def __init__(self):
            super().__init__()
            self.sim = None
            self.history = []
            self.params = None
            self.dead = False

        @initialize(params=_params(m))
        def init(self, params):
            self.params = params
            self.sim = SIMS[m](params)

        @rule(op=_ops(m))
        def step(self, op):
            if self.dead:
                return
            self.history.append(op)
            try:
                err = self.sim.step(op)
            except Exception as e:
                err = f"raised {e!r}"
            if err:
                self.dead = True

        def teardown(self):
            if self.sim is None:
                return
            # judge the executed history through the plain interpreter
            rec.run(me, {"m": m, "params": self.params, "ops": self.history, "end": {"mode": len(self.history) % 4}})

    s = settings(max_examples=n_examples, stateful_step_count=steps, database=None,
                 deadline=None, phases=[Phase.generate], suppress_health_check=list(HealthCheck),
                 report_multiple_bugs=False)
    run_state_machine_as_test(hypothesis.seed(seed)(Machine), settings=s)
    rec.notes["stateful_histories"] = rec.evaluations
    return rec.to_dict()


def extra(tier, seed, jobs):
    from ..core import pool_map

    n = 400 if tier == "quick" else 8000
    steps = 50 if tier == "quick" else 200
    tasks = []
    for k, m in enumerate(["refcache", "refcache", "retcache", "retcache", "ordering", "offsetmap", "idset", "refcache"]):
        tasks.append((m, seed * 7919 + k, n, steps))
    return pool_map(_machine_chunk, tasks, jobs)
