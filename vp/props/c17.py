"""C17 - CallPatch follows the calling convention and is stack-neutral."""

from hypothesis import strategies as st

from .. import isa as I
from ..core import BadSpec, HarnessError, Outcome, exc_kind
from ..refmodels import cpu as CPU

ID = "C17"
TECHNIQUE = ("property-based testing (Hypothesis): CallPatch instances over generated argument lists and calling-convention "
             "descriptions are inserted through RewritingContext; the inserted bytes (prologue + call sequence + epilogue) "
             "are decoded with capstone and executed on a small concrete emulator; the machine state at the call and at the "
             "end is compared with what the convention prescribes")
RULE = ("a case is (x86-64 ELF/PE, IA32 PE, ARM64) x 0..16 arguments mixing integers (boundaries of every immediate form "
        "up to 2^64-1, negatives), symbols and callables x default or custom CallingConventionDesc (0-8 registers, "
        "alignment 4/8/16/32, shadow space 0/32/40, caller/callee clean-up) x align_stack on/off x initial SP residue. "
        "At the call: i-th argument in the i-th convention register with its exact value (mod 2^wordsize) or the symbol's "
        "address, remaining arguments on the stack in order above the shadow space, SP aligned to the convention's "
        "alignment when the start was aligned or align_stack is on; at the end SP is back where it started; callables "
        "received the InsertionContext (the same CallPatch object is inserted at 1-3 sites and every callable must see each site's own context and deliver that site's value); ARM64 rejects shadow space / alignment != 16 with ValueError. Non-trivial = more "
        "arguments than convention registers, or an integer outside the signed 32-bit range, or a non-default "
        "convention; distinct by spec hash.")
ASSUMPTIONS = [
    "align_stack aligns to the ABI's stack alignment (16 on x86-64/ARM64, 4 on IA32 PE); for a custom convention with a "
    "larger alignment an aligned call is only demanded from an aligned start without align_stack",
    "a symbol resolves to a tagged address, memory at that address holds a different tagged contents value, so '&foo' and '*foo' are distinguishable",
    "IA32 integer arguments are drawn from [-2^31, 2^32); x86-64 / ARM64 from [-2^63, 2^64)",
    "custom conventions use register names of the target ABI",
]
PAIRS = [("x64", "elf"), ("x64", "pe"), ("ia32", "pe"), ("arm64", "elf")]
CONV_REGS = {
    ("x64", "elf"): ["RDI", "RSI", "RDX", "RCX", "R8", "R9", "R10", "R11"],
    ("x64", "pe"): ["RCX", "RDX", "R8", "R9", "R10", "R11", "RSI", "RDI"],
    ("ia32", "pe"): ["ECX", "EDX", "EAX", "EBX"],
    ("arm64", "elf"): ["x0", "x1", "x2", "x3", "x4", "x5", "x6", "x7"],
}
DEFAULT_CONV = {
    ("x64", "elf"): (6, 16, True, 0), ("x64", "pe"): (4, 16, True, 32), ("ia32", "pe"): (0, 4, True, 0),
    ("arm64", "elf"): (8, 16, True, 0),
}
BOUND = [0, 1, 5, -1, -5, 127, 128, -128, -129, 255, 32767, 32768, 65535, 65536, -65535, -65536, -65537,
         2**31 - 1, 2**31, -2**31, -2**31 - 1, 2**32 - 1, 2**32, 2**32 + 5, 0x123456789, 2**48 + 7, 2**63 - 1, 2**63,
         -2**63, 2**64 - 1, 0x1_0000_0001_0000]


def calibrate():
    I.calibrate()


def strategy(tier):
    arg = st.one_of(
        st.fixed_dictionaries({"k": st.just("int"), "v": st.one_of(st.sampled_from(BOUND), st.integers(-2**63, 2**64 - 1), st.integers(-300, 300))}),
        st.fixed_dictionaries({"k": st.just("sym"), "i": st.integers(0, 2)}),
        st.fixed_dictionaries({"k": st.just("call-int"), "v": st.integers(-1000, 1000)}),
        st.fixed_dictionaries({"k": st.just("call-sym"), "i": st.integers(0, 2)}),
    )
    conv = st.one_of(st.none(), st.none(), st.fixed_dictionaries({
        "nregs": st.integers(0, 8), "align": st.sampled_from([4, 8, 16, 16, 32]), "shadow": st.sampled_from([0, 0, 32, 40]),
        "caller_cleanup": st.booleans()}))
    return st.fixed_dictionaries({
        "pair": st.integers(0, 3), "args": st.lists(arg, max_size=16), "conv": conv,
        "align_stack": st.sampled_from([None, None, True, False]), "sp": st.integers(0, 7), "leaf": st.booleans(),
        "sites": st.sampled_from([0, 0, 1, 2]),
    })


def budget(tier):
    return 12_000 if tier == "quick" else 300_000


def in_known_class(fid, spec, failure):
    isa, fmt = PAIRS[spec["pair"] % 4]
    d = failure.get("data") or {}
    if fid == "C17-x86-symbol-arg-by-contents":
        return isa in ("x64", "ia32") and d.get("arg") in ("sym", "call-sym")
    if fid == "C17-x86-64-stack-int-beyond-imm32":
        return isa == "x64" and d.get("why") == "stack-int-beyond-imm32"
    return False


def evaluate(spec):
    import gtirb
    import gtirb_rewriting as gr
    from gtirb_rewriting.abi import CallingConventionDesc
    from gtirb_rewriting.patches import CallPatch

    out = Outcome()
    try:
        isa, fmt = PAIRS[spec["pair"] % 4]
        word = 4 if isa == "ia32" else 8
        mask = (1 << (8 * word)) - 1
        rawargs = spec["args"]
        cv = spec["conv"]
        align_stack = spec["align_stack"]
    except (KeyError, TypeError) as e:
        raise BadSpec(repr(e))
    nregs, calign, caller_cleanup, shadow = DEFAULT_CONV[(isa, fmt)]
    custom = cv is not None
    if custom:
        nregs, calign, caller_cleanup, shadow = cv["nregs"], cv["align"], bool(cv["caller_cleanup"]), cv["shadow"]
    if calign not in (1, 2, 4, 8, 16, 32, 64) or shadow < 0 or not (0 <= nregs <= 8):
        raise BadSpec("convention")
    regs = CONV_REGS[(isa, fmt)][:nregs]
    # module
    ir = gtirb.IR()
    m = gtirb.Module(name="m", isa=I.gtirb_isa(isa), file_format=I.gtirb_fmt(fmt), ir=ir)
    m.byte_order = gtirb.Module.ByteOrder.Little
    sec = gtirb.Section(name=".text", module=m, flags={gtirb.Section.Flag.Executable, gtirb.Section.Flag.Readable,
                                                       gtirb.Section.Flag.Loaded, gtirb.Section.Flag.Initialized})
    tab = I.table(isa)
    body = tab["nop"].bytes + tab["ret"].bytes
    bi = gtirb.ByteInterval(contents=body + bytes(24), address=0x1000, section=sec)
    cb = gtirb.CodeBlock(offset=0, size=len(body), byte_interval=bi)
    db = gtirb.DataBlock(offset=len(body), size=24, byte_interval=bi)
    ir.cfg.add(gtirb.Edge(cb, gtirb.ProxyBlock(module=m), gtirb.Edge.Label(gtirb.Edge.Type.Return)))
    callee = gtirb.Symbol(name="callee_fn", payload=gtirb.ProxyBlock(module=m), module=m)
    symargs = [gtirb.Symbol(name=f"dat{k}", payload=db, module=m) for k in range(3)]
    funcs = []
    # the same patch object may be inserted at several sites; callables must then see each site's own context
    try:
        nsites = 1 + int(spec.get("sites") or 0) % 3
    except (TypeError, ValueError) as e:
        raise BadSpec(repr(e))
    sites = [(bi, cb)]
    for k in range(1, nsites):
        bik = gtirb.ByteInterval(contents=body, address=0x1000 + 0x100 * k, section=sec)
        cbk = gtirb.CodeBlock(offset=0, size=len(body), byte_interval=bik)
        ir.cfg.add(gtirb.Edge(cbk, gtirb.ProxyBlock(module=m), gtirb.Edge.Label(gtirb.Edge.Type.Return)))
        sites.append((bik, cbk))
    site_of = {id(c): k for k, (_, c) in enumerate(sites)}
    seen_ctx = []
    args = []
    want = []   # (kind, value) at site 0; callables vary with the site (see want_at)
    for a in rawargs:
        k = a["k"]
        if k == "int":
            v = a["v"]
            if isa == "ia32":
                v = max(-2**31, min(2**32 - 1, v))
            args.append(v)
            want.append(("int", v & mask, v))
        elif k == "sym":
            s = symargs[a["i"] % 3]
            args.append(s)
            want.append(("sym", s.name, None))
        elif k == "call-int":
            v = a["v"]

            def f(ctx, v=v):
                seen_ctx.append(ctx)
                return v + 7 * site_of.get(id(ctx.block), 99)

            args.append(f)
            want.append(("call-int", v & mask, v))
        else:
            s = symargs[a["i"] % 3]

            def g(ctx, a=a):
                seen_ctx.append(ctx)
                return symargs[(a["i"] + site_of.get(id(ctx.block), 1)) % 3]

            args.append(g)
            want.append(("call-sym", s.name, None))
    n_stack = max(0, len(args) - len(regs))
    out.nontrivial = n_stack > 0 or custom or any(w[0] in ("int",) and not (-2**31 <= w[2] < 2**31) for w in want)
    out.classes = [f"abi={isa}/{fmt}", "custom-conv" if custom else "default-conv", f"args={min(len(args), 9)}",
                   f"stack-args={min(n_stack, 5)}", f"align_stack={align_stack}"]
    kwargs = {}
    if align_stack is not None:
        kwargs["align_stack"] = align_stack
    conv_obj = None
    if custom:
        conv_obj = CallingConventionDesc(registers=tuple(regs), stack_alignment=calign, caller_cleanup=caller_cleanup,
                                         shadow_space=shadow)
    try:
        patch = CallPatch(callee, args, conv_obj, **kwargs)
    except ValueError as e:
        if isa == "arm64" and custom and (shadow or calign != 16):
            out.classes.append("rejected-arm64-conv")
            return out
        out.fail("C17.construct", "valueerror-on-valid-description", repr(e)[:200])
        return out
    except Exception as e:
        out.fail("C17.construct", "raises:" + exc_kind(e), repr(e)[:200])
        return out
    if isa == "arm64" and custom and (shadow or calign != 16):
        out.fail("C17.construct", "invalid-arm64-convention-accepted", f"shadow {shadow} align {calign}")
        return out
    ctx = gr.RewritingContext(m, funcs)
    for _, c in sites:
        ctx.insert_at(c, 0, patch)
    if nsites > 1:
        out.classes.append(f"sites={nsites}")
    # classify expected assembly problems that are known findings
    why = None
    if isa == "x64":
        for idx, w in enumerate(want):
            if idx >= len(regs) and w[0] in ("int", "call-int") and not (-2**31 <= w[2] < 2**31):
                why = "stack-int-beyond-imm32"
    try:
        ctx.apply()
    except Exception as e:
        out.fail("C17.assembles", "apply-raises:" + exc_kind(e), repr(e)[:300], why or "", data={"why": why})
        return out
    ncall = sum(1 for w in want if w[0].startswith("call"))
    per_site = [0] * nsites
    for c in seen_ctx:
        k = site_of.get(id(c.block))
        if k is None or c.offset != 0 or c.module is not m:
            out.fail("C17.callables", "wrong-insertion-context", f"{c.block} {c.offset}")
            break
        per_site[k] += 1
    else:
        if per_site != [ncall] * nsites:
            out.fail("C17.callables", "callable-invocation-count", f"{per_site} for {ncall} callables at each of {nsites} sites")

    def want_at(k):
        # what each argument must be at site k (callables were handed that site's context)
        res = []
        for a, w in zip(rawargs, want):
            if w[0] == "call-int":
                v = a["v"] + 7 * k
                res.append(("call-int", v & mask, v))
            elif w[0] == "call-sym":
                res.append(("call-sym", symargs[(a["i"] + k) % 3].name, None))
            else:
                res.append(w)
        return res

    for k, (bik, cbk) in enumerate(sites):
        _judge_site(out, spec, isa, word, mask, bik, body, want_at(k), regs, shadow, calign, caller_cleanup, n_stack,
                    align_stack, k)
        if out.failures:
            break
    return out


def _judge_site(out, spec, isa, word, mask, bi, body, want, regs, shadow, calign, caller_cleanup, n_stack, align_stack, site):
    import gtirb
    # inserted bytes
    blocks = sorted(bi.blocks, key=lambda b: b.offset)
    code_end = max(b.offset + b.size for b in blocks if isinstance(b, gtirb.CodeBlock))
    total = bytes(bi.contents)
    # the patch is everything in front of the original nop+ret
    pos = code_end - len(body)
    if total[pos:pos + len(body)] != body:
        out.fail("C17.bytes", "original-code-not-found-after-patch", total.hex())
        return out
    code = total[:pos]
    symx = {}
    for off, e in bi.symbolic_expressions.items():
        if off < pos:
            symx[off] = e.symbol.name
    # emulate
    res = [0, 8, 0, 8, 4, 12, 0, 8][spec["sp"] % 8] if isa == "x64" else ([0, 4, 8, 12][spec["sp"] % 4] if isa == "ia32" else 0)
    eff_align = align_stack if align_stack is not None else (isa != "arm64")
    start_aligned = True
    if not eff_align or isa == "arm64":
        res = 0   # only an aligned start is promised to stay aligned
    sp0 = 0x7FFF0000 - (0x7FFF0000 % 64) + res
    if (sp0 % calign) != 0:
        start_aligned = False
    regnames = {"x64": ["rax", "rbx", "rcx", "rdx", "rsi", "rdi", "rbp", "r8", "r9", "r10", "r11", "r12", "r13", "r14", "r15"],
                "ia32": ["eax", "ebx", "ecx", "edx", "esi", "edi", "ebp"],
                "arm64": [f"x{i}" for i in range(31)]}[isa]
    init = {r: (0xA000 + k * 0x111) for k, r in enumerate(regnames)}
    mach = CPU.Machine(isa, init, sp0, word)
    mach.callee_pop = 0 if caller_cleanup else n_stack * word
    emu = CPU.emulator(isa)
    try:
        emu.run(mach, code, symx)
    except CPU.Fault as e:
        out.fail("C17.execution", "machine-fault", str(e))
        return out
    except CPU.Unknown as e:
        raise HarnessError(f"emulator does not know an instruction of the call sequence: {e} in {code.hex()}")
    if len(mach.calls) != 1:
        out.fail("C17.call", "number-of-calls", f"{len(mach.calls)}")
        return out
    snap = mach.calls[0]
    if snap["target"] != "callee_fn":
        out.fail("C17.call", "wrong-callee", f"{snap['target']}")

    def canon(r):
        r = r.lower()
        return CPU.x86_canon(r, isa) if isa != "arm64" else r

    def matches(w, got):
        kind = w[0]
        if kind in ("int", "call-int"):
            return isinstance(got, int) and (got & mask) == w[1]
        return got == ("addr-of", w[1])

    for idx, w in enumerate(want):
        if idx < len(regs):
            got = snap["regs"].get(canon(regs[idx]))
            where = f"register {regs[idx]}"
        else:
            k = idx - len(regs)
            addr = snap["sp"] + shadow + k * word
            ent = snap["mem"].get(addr)
            got = ent[0] if ent else None
            where = f"stack slot sp+{shadow + k * word}"
        if not matches(w, got):
            desc = f"&{w[1]}" if w[0].endswith("sym") else hex(w[1])
            out.fail("C17.arguments", "wrong-value", f"argument {idx} ({desc}) in {where}: got {got!r}" + (f" at insertion site {site}" if site else ""),
                     w[0] + ("/reg" if idx < len(regs) else "/stack") + ("/later-site" if site else ""), data={"arg": w[0]})
            break
    # align_stack aligns to the ABI's own stack alignment; a custom convention
    # that asks for more is only promised an aligned call from an aligned start
    abi_align = {"x64": 16, "ia32": 4, "arm64": 16}[isa]
    demand = (eff_align and calign <= abi_align) or (not eff_align and start_aligned)
    if isa == "arm64":
        demand = True
    if demand and snap["sp"] % calign:
        out.fail("C17.alignment", "sp-misaligned-at-call",
                 f"sp {hex(snap['sp'])} % {calign} = {snap['sp'] % calign} (start {hex(sp0)}, align_stack={eff_align}, shadow {shadow}, stack args {n_stack})",
                 f"shadow={shadow}" if shadow % calign else "")
    if mach.sp != sp0:
        out.fail("C17.neutral", "stack-pointer-not-restored", f"{hex(mach.sp)} != {hex(sp0)} (caller_cleanup={caller_cleanup}, stack args {n_stack})")
    return out


def render(spec):
    try:
        isa, fmt = PAIRS[spec["pair"] % 4]
        return {"abi": f"{isa}/{fmt}", "args": spec["args"], "convention": spec["conv"] or "default",
                "align_stack": spec["align_stack"], "sp_residue": spec["sp"]}
    except Exception:
        return spec
