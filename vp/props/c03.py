"""C03 - CFG equals the control flow of the edited listing, per instruction."""

from .. import isa as I
from .. import listing as Lm
from . import _rw

ID = "C03"
TECHNIQUE = ("property-based testing (Hypothesis) against the listing reference model: the output CFG is flattened to "
             "per-instruction control flow (block geometry + capstone-independent template kinds) and compared clause "
             "by clause with the control flow derived from the list-edited listing")
RULE = ("cases as in C01 over x86-64 (ELF/PE), IA32 and ARM64 with functions, direct/conditional/indirect jumps and "
        "calls, returns, blocks without fallthrough followed by code, code followed by data; patches from the same "
        "vocabulary with own labels; deletions/replacements that remove terminators, call sites and branch targets. "
        "Clauses: fallthrough, direct branch/call target + flags, indirect -> proxy, return edges = return sites of the "
        "calls into the function (or one proxy), closure / no buried control transfer. Non-trivial = a patch contains a "
        "control transfer or an edit removes one, and the listing has at least one call/return pair; distinct by spec hash.")
ASSUMPTIONS = [
    "input CFG is derived from the listing by the same rules (consistent by construction)",
    "when data or the section end follows an instruction that can fall through, both 'no edge' and 'fallthrough to a "
    "proxy' are accepted (the property is silent; a repo test pins the latter)",
    "MIPS32 is excluded (delay slots, DESIGN 1.3)",
]
PAIRS = [p for p in I.PAIRS if p[0] != "mips32"]


def calibrate():
    I.calibrate()


def strategy(tier):
    return Lm.case_st(tier, pairs=PAIRS, ivs=True)


def budget(tier):
    return 30_000 if tier == "quick" else 400_000


def _edge_desc(e):
    l = e.label
    return (l.type.name if l else None, bool(l.conditional) if l else None, bool(l.direct) if l else None)


def in_known_class(fid, spec, failure):
    case = Lm.Case(spec)
    pred = KNOWN.get(fid)
    return bool(pred and pred(case, failure))


def _no_fallthrough_created(case, failure):
    d = failure.get("data") or {}
    origin = d.get("origin")
    if not origin:
        return False
    if origin[0] == "patch":
        ed = next((e for e in case.edits if e.reg == origin[1]), None)
        if ed is None:
            return False
        g = ed.b
        # the patch ends up last in its block: it sits at the block end, or everything behind it was deleted
        Lm.Expected(case)  # marks deleted units
        if not all(u.deleted for u in case.blocks[g].units[ed.i + ed.n:]):
            return False
        # another patch at the same block end that ends in jmp / ret
        for o in case.edits:
            if o is not ed and o.b == g and o.op != "delete" and o.i + o.n == len(case.blocks[g].units):
                items, _ = case.patch_units(o)
                units = [x for x in items if isinstance(x, Lm.Unit)]
                if units and units[-1].kind not in I.FALLS:
                    return True
    else:
        g, k = origin[1], origin[2]
        Lm.Expected(case)  # marks deleted units
        if not all(u.deleted for u in case.blocks[g].units[k + 1:]):
            return False
    b = case.blocks[g]
    return b.code and b.units[-1].kind not in I.FALLS


def _patch_ret(case, failure):
    """known only when there was nothing to copy at insertion time: the
    function had no (other) return with real return sites in the input"""
    d = failure.get("data") or {}
    origin = d.get("origin") or [None]
    if origin[0] != "patch" or d.get("kind") != "ret":
        return False
    ed = next((e for e in case.edits if e.reg == origin[1]), None)
    if ed is None:
        return False
    f = case.blocks[ed.b].func
    if f is None:
        return True
    # the patch itself calls its host function: that call's return site is not part of the snapshot either
    items, _ = case.patch_units(ed)
    for x in items:
        if isinstance(x, Lm.Unit) and x.kind == "call" and x.sym in case.label_block \
                and case.blocks[case.label_block[x.sym][0]].func == f:
            return True
    # another edit of the same rewrite changes the calls into the host function (removes one, or inserts one):
    # the snapshot is taken before or after that edit, and stale return edges of the original returns are copied
    Lm.Expected(case)  # marks deleted units
    for b in case.blocks:
        for u in b.units:
            if u.deleted and u.kind == "call" and u.sym in case.label_block and case.blocks[case.label_block[u.sym][0]].func == f:
                return True
    for o in case.edits:
        if o is ed or o.op == "delete":
            continue
        oitems, _ = case.patch_units(o)
        for x in oitems:
            if isinstance(x, Lm.Unit) and x.kind == "call" and x.sym in case.label_block \
                    and case.blocks[case.label_block[x.sym][0]].func == f:
                return True
    has_ret = any(b.func == f and b.units[-1].kind == "ret" for b in case.blocks if b.code)
    has_caller = False
    for b in case.blocks:
        if b.code and b.units[-1].kind == "call" and b.units[-1].sym in case.label_block:
            tg = case.blocks[case.label_block[b.units[-1].sym][0]]
            if tg.func == f and Lm._next_code_block(case, b.gidx) is not None:
                has_caller = True
    return not (has_ret and has_caller)


def _stale_returns(case, failure):
    """Signature of C03-stale-return-edges (four call-site shapes)."""
    exp = Lm.Expected(case)
    # (i) a wholly deleted block that ends in a direct call to one of its own labels
    for g in exp.deleted_blocks:
        b = case.blocks[g]
        if b.code and b.units[-1].kind == "call" and b.units[-1].sym in (b.labels + b.end_labels):
            return True
    # (ii) the target block of a direct call is deleted with retarget_to_proxy
    #      while its function keeps other blocks
    targets = set()
    for insns in exp.insns:
        for e in insns:
            if e.unit.kind == "call" and e.unit.sym in case.label_block:
                targets.add(case.label_block[e.unit.sym][0])
    for g in exp.proxy_blocks & targets:
        f = case.blocks[g].func
        if f and any(gg not in exp.deleted_blocks for gg in case.funcs[f]):
            return True
    # (iii) a replace that removes a call into the host's function and inserts a ret
    for ed in case.edits:
        if ed.op != "replace":
            continue
        host = case.blocks[ed.b]
        if not host.func:
            continue
        removed = host.units[ed.i:ed.i + ed.n]
        calls_f = any(u.kind == "call" and u.sym in case.label_block
                      and case.blocks[case.label_block[u.sym][0]].func == host.func for u in removed)
        items, _ = case.patch_units(ed)
        if calls_f and any(isinstance(x, Lm.Unit) and (x.kind == "ret" or (
                x.kind == "call" and x.sym in case.label_block
                and case.blocks[case.label_block[x.sym][0]].func == host.func)) for x in items):
            return True
    # (iv) a removed direct call whose target label had slid onto the following block because the block that
    #      carried it was deleted as a whole (without retarget_to_proxy): the callee is looked up through the
    #      call edge's current target, which is no longer a block of the original callee
    for b in case.blocks:
        for u in b.units:
            if u.deleted and u.kind == "call" and u.sym in case.label_block:
                g = case.label_block[u.sym][0]
                if g in exp.deleted_blocks and g not in exp.proxy_blocks and g != b.gidx:
                    return True
    return False


KNOWN = {
    "C03-stale-return-edges": _stale_returns,
    "C03-no-fallthrough-created": _no_fallthrough_created,
    "C03-patch-ret-return-edges": _patch_ret,
    "C02-trailing-patch-label-at-block-end": lambda case, failure: Lm.trailing_label_then_insert(case),
    "C02-label-follows-proxy-deleted-neighbour": lambda case, failure: Lm.label_on_proxy_deleted_neighbour(case),
}


def falls_off(case, exp):
    """A patch was inserted right after an instruction that can fall through
    but was followed by no code (data / end of section) at that time: the
    library trusts the CFG (no fallthrough edge => unreachable insertion
    point), so such listings are outside the domain ("input CFG consistent
    with its code")."""
    for ed in case.edits:
        if ed.op == "delete":
            continue
        for insns in exp.insns:
            idx = [k for k, e in enumerate(insns) if e.unit.origin[:2] == ("patch", ed.reg)]
            if not idx:
                continue
            before = insns[idx[0] - 1].unit if idx[0] > 0 else None
            after = insns[idx[-1] + 1].unit if idx[-1] + 1 < len(insns) else None
            if before is not None and before.kind in I.FALLS and (after is None or after.kind == "data"):
                return True
    return False


def evaluate(spec):
    import gtirb

    out, r = _rw.start(spec)
    if r is None:
        return out
    if falls_off(r.case, r.exp):
        out.excluded = "insertion-after-code-that-falls-off-the-end"
        return out
    case, exp, obs, m, ir = r.case, r.exp, r.obs, r.built.module, r.built.ir
    ET = gtirb.Edge.Type
    # ---- non-trivial rule ------------------------------------------------
    patch_transfer = any(e.unit.origin[0] == "patch" and e.unit.kind in I.TRANSFER
                         for insns in exp.insns for e in insns)
    removed_transfer = any(u.deleted and u.kind in I.TRANSFER for b in case.blocks for u in b.units)
    kinds = {e.unit.kind for insns in exp.insns for e in insns}
    out.nontrivial = (patch_transfer or removed_transfer) and "call" in kinds and "ret" in kinds
    if patch_transfer:
        out.classes.append("patch-has-transfer")
    if removed_transfer:
        out.classes.append("edit-removes-transfer")
    # ---- observed geometry -----------------------------------------------
    blocks_at = [dict() for _ in case.sections]     # start pos -> [blocks]
    per_sec = []
    for si in range(len(case.sections)):
        cbs = [(p, sz, b) for (p, sz, b) in obs.code_blocks(si) if isinstance(b, gtirb.CodeBlock)]
        per_sec.append(cbs)
        for p, sz, b in cbs:
            blocks_at[si].setdefault(p, []).append(b)

    def block_starting(si, pos):
        bs = blocks_at[si].get(pos, [])
        return bs

    def label_target(name, si_from):
        """set of acceptable target nodes for a branch to this label"""
        if name in case.externs:
            return [r.built.proxies[name]], f"extern {name}"
        if name in exp.labels:
            want = exp.labels[name]
            if want[0] == "proxy":
                ref = r.built.symbols[name].referent
                return ([ref] if isinstance(ref, gtirb.ProxyBlock) else []), f"proxy of {name}"
            return block_starting(want[1], want[2]), f"{name} at section {want[1]}+{want[2]}"
        if name in exp.patch_labels:
            si, pos, _t = exp.patch_labels[name]
            return block_starting(si, pos), f"{name} at section {si}+{pos}"
        return [], f"unknown label {name}"

    # ---- return sites per function -----------------------------------------
    func_at = [dict() for _ in case.sections]
    for si, insns in enumerate(exp.insns):
        for e in insns:
            if e.unit.kind != "data":
                func_at[si][e.pos] = e.unit.func
    sites = {}
    opt_sites = {}
    proxy_starts = {exp.block_start[g] for g in exp.proxy_blocks}
    for si, insns in enumerate(exp.insns):
        for k, e in enumerate(insns):
            u = e.unit
            if u.kind != "call" or u.sym in case.externs:
                continue
            tgt = exp.labels.get(u.sym) or (("pos",) + exp.patch_labels[u.sym][:2] if u.sym in exp.patch_labels else None)
            if not tgt or tgt[0] != "pos":
                continue
            f = func_at[tgt[1]].get(tgt[2])
            nxt = insns[k + 1] if k + 1 < len(insns) else None
            site = (si, nxt.pos) if (nxt is not None and nxt.unit.kind != "data") else None
            # a call whose target label slid (its own block was deleted) may or
            # may not count for the function the label used to be in / is in now
            slid = u.sym in case.label_block and case.label_block[u.sym][0] in exp.deleted_blocks
            if slid:
                oldf = case.blocks[case.label_block[u.sym][0]].func
                for ff in (oldf, f):
                    if ff is not None:
                        opt_sites.setdefault(ff, set()).add(site or (si, e.pos + len(u.data)))
                continue
            if f is None:
                continue
            if site is None:
                # nothing/data follows the call: a zero-sized block kept at
                # that position (Deletion.md) may remain a return target
                opt_sites.setdefault(f, set()).add((si, e.pos + len(u.data)))
            elif u.sym in exp.patch_labels:
                # a call to a label defined inside a patch ("call .L; .L:") may
                # or may not count as a call into the enclosing function
                opt_sites.setdefault(f, set()).add(site)
            else:
                sites.setdefault(f, set()).add(site)
    case_edit_block = {ed.reg: ed.b for ed in case.edits}

    def data_gap(u, v):
        """was there (deleted) data between two instructions?  Then
        the first one fell into data in an intermediate state and a
        fallthrough to a proxy is what the documented rule produces."""
        # (an instruction of a patch counts as part of the block it was
        # spliced into)
        a = u.origin[1] if u.origin[0] == "orig" else case_edit_block[u.origin[1]]
        b = v.origin[1] if v.origin[0] == "orig" else case_edit_block[v.origin[1]]
        return any(not case.blocks[g].code for g in range(a + 1, b))

    # ---- per instruction ---------------------------------------------------
    for si, insns in enumerate(exp.insns):
        cbs = per_sec[si]
        for k, e in enumerate(insns):
            u = e.unit
            if u.kind == "data":
                continue
            origin = u.origin[0]
            if origin == "patch" and not case.blocks[case_edit_block[u.origin[1]]].code:
                continue  # code spliced into a data block is outside the CFG clauses
            host = [(p, sz, b) for (p, sz, b) in cbs if p <= e.pos < p + sz]
            if len(host) != 1:
                out.fail("C03.closure", "instruction-not-in-exactly-one-code-block",
                         f"{u.origin} at {si}+{e.pos}: {len(host)} blocks", origin)
                continue
            bp, bsz, blk = host[0]
            last = e.pos + len(u.data) == bp + bsz
            if not last:
                if u.kind in I.TRANSFER:
                    out.fail("C03.closure", "buried-control-transfer",
                             f"{u.kind} {u.origin} at {si}+{e.pos} is not the last instruction of its block", u.kind)
                continue
            nxt = insns[k + 1] if k + 1 < len(insns) else None
            # (instructions of a patch spliced into a data block are data as
            # far as the CFG clauses go)
            code_follows = nxt is not None and nxt.unit.kind != "data" and not (
                nxt.unit.origin[0] == "patch" and not case.blocks[case_edit_block[nxt.unit.origin[1]]].code)
            edges = list(blk.outgoing_edges)
            by_type = {}
            for ed in edges:
                by_type.setdefault(ed.label.type if ed.label else None, []).append(ed)
            where = f"{u.kind} {u.origin} at {si}+{e.pos}"
            sig = f"{u.kind}/{origin}"
            data = {"origin": list(u.origin), "kind": u.kind}
            # -- clause 1: fallthrough
            ft = by_type.pop(ET.Fallthrough, [])
            if u.kind in I.FALLS and code_follows:
                want = block_starting(si, nxt.pos)
                if len(ft) != 1 or ft[0].target not in want:
                    got = [("proxy" if isinstance(x.target, gtirb.ProxyBlock) else obs.block_pos(x.target)) for x in ft]
                    proxy_ok = (len(ft) == 1 and isinstance(ft[0].target, gtirb.ProxyBlock)
                                and ((si, nxt.pos) in proxy_starts or data_gap(u, nxt.unit)))
                    if not proxy_ok:
                        out.fail("C03.fallthrough", "missing-or-wrong" if ft else "missing",
                                 f"{where}: fallthrough to {got}, expected the block at {si}+{nxt.pos}", sig, data)
            elif u.kind in I.FALLS:
                endpos = e.pos + len(u.data)
                okt = [x for x in ft if isinstance(x.target, gtirb.ProxyBlock)
                       or (x.target.size == 0 and obs.block_pos(x.target) == (si, endpos))]
                if len(okt) != len(ft) or len(ft) > 1:
                    out.fail("C03.fallthrough", "into-non-code", f"{where}: nothing/data follows but falls through to a block", sig, data)
            else:
                if ft:
                    got = [("proxy" if isinstance(x.target, gtirb.ProxyBlock) else obs.block_pos(x.target)) for x in ft]
                    out.fail("C03.fallthrough", "after-no-fallthrough-instruction",
                             f"{where}: has a fallthrough edge to {got}", sig, data)
            # -- clauses 2/3: branch / call
            for etype, kinds_direct, kinds_indirect in ((ET.Branch, ("jmp", "jcc"), ("ijmp",)),
                                                        (ET.Call, ("call",), ("icall",))):
                got = by_type.pop(etype, [])
                if u.kind in kinds_direct:
                    tgts, desc = label_target(u.sym, si)
                    cond = u.kind == "jcc"
                    ok = (len(got) == 1 and got[0].target in tgts
                          and bool(got[0].label.conditional) == cond and bool(got[0].label.direct))
                    if not ok:
                        gd = [(_edge_desc(x), "proxy" if isinstance(x.target, gtirb.ProxyBlock) else obs.block_pos(x.target)) for x in got]
                        out.fail("C03.direct", "edge-differs", f"{where}: edges {gd}, expected one to {desc} cond={cond}", sig, data)
                elif u.kind in kinds_indirect:
                    ok = (len(got) == 1 and isinstance(got[0].target, gtirb.ProxyBlock) and not got[0].label.direct
                          and got[0].target in m.proxies)
                    if not ok:
                        out.fail("C03.indirect", "edge-differs", f"{where}: {[_edge_desc(x) for x in got]}", sig)
                elif got:
                    out.fail("C03.direct", "unexpected-edge", f"{where}: {[_edge_desc(x) for x in got]}", sig)
            # -- clause 4: returns
            ret = by_type.pop(ET.Return, [])
            if u.kind == "ret":
                want_sites = sites.get(u.func, set()) if u.func else set()
                optional = set(opt_sites.get(u.func, set())) if u.func else set()
                got_blocks = [x.target for x in ret]
                # a return site that was the start of a block deleted with
                # retarget_to_proxy: the return edge goes to the proxy (Deletion.md)
                proxied = {w for w in (want_sites | optional) if w in proxy_starts}
                if proxied:
                    want_sites = want_sites - proxied
                    optional |= proxied
                    got_blocks = [b for b in got_blocks if not isinstance(b, gtirb.ProxyBlock)]
                    if not want_sites and not got_blocks:
                        continue
                gp = {obs.block_pos(b) for b in got_blocks if not isinstance(b, gtirb.ProxyBlock)}
                if optional and gp and gp <= (want_sites | optional) and want_sites <= gp \
                        and not any(isinstance(b, gtirb.ProxyBlock) for b in got_blocks):
                    pass
                elif want_sites:
                    want_blocks = set()
                    for (ssi, spos) in want_sites:
                        want_blocks.update(id(b) for b in block_starting(ssi, spos))
                    gotpos = sorted(str(obs.block_pos(b)) if not isinstance(b, gtirb.ProxyBlock) else "proxy" for b in got_blocks)
                    if (any(isinstance(b, gtirb.ProxyBlock) for b in got_blocks)
                            or {obs.block_pos(b) for b in got_blocks} != want_sites):
                        out.fail("C03.returns", "return-targets",
                                 f"{where} in {u.func}: returns to {gotpos}, expected {sorted(want_sites)}", sig, data)
                elif optional and gp and gp <= optional and not any(isinstance(b, gtirb.ProxyBlock) for b in got_blocks):
                    pass
                else:
                    if len(got_blocks) != 1 or not isinstance(got_blocks[0], gtirb.ProxyBlock):
                        gotpos = sorted(str(obs.block_pos(b)) if not isinstance(b, gtirb.ProxyBlock) else "proxy" for b in got_blocks)
                        out.fail("C03.returns", "expected-one-proxy", f"{where} in {u.func}: returns to {gotpos}", sig, data)
            elif ret:
                out.fail("C03.returns", "return-edge-on-non-return", where, sig)
            for etype, rest in by_type.items():
                out.fail("C03.direct", "unexpected-edge-type", f"{where}: {etype}", sig)
    # ---- clause 5: closure -------------------------------------------------
    for ed in ir.cfg:
        for n in (ed.source, ed.target):
            if isinstance(n, gtirb.CodeBlock):
                if n.byte_interval is None or n.module is not m:
                    out.fail("C03.closure", "edge-endpoint-left-module", str(_edge_desc(ed)))
            elif isinstance(n, gtirb.ProxyBlock):
                if n not in m.proxies:
                    out.fail("C03.closure", "proxy-endpoint-not-in-module", str(_edge_desc(ed)))
    return out


render = _rw.render
