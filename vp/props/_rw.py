"""Shared evaluation scaffolding for the rewrite properties (C01-C09, C11)."""

from .. import isa as I
from .. import listing as Lm
from ..core import Outcome
from . import c01


def start(spec, **kw):
    """Run the case.  Returns (outcome, run) - run is None when the case is
    excluded or cannot be judged by properties other than C01 (apply raised or
    the bytes already disagree: both are C01's to report)."""
    out = Outcome()
    r = Lm.execute(spec, allow_after_full_delete=bool(spec.get("allow_after_full_delete")), **kw)
    if r.excluded:
        out.excluded = r.excluded
        return out, None
    out.classes = c01.classes(r.case, r.exp)
    if r.error is not None:
        out.excluded = "apply-raised(reported-by-C01)"
        return out, None
    for si in range(len(r.case.sections)):
        if r.exp.sec_bytes[si] != r.obs.sec_bytes[si]:
            out.excluded = "bytes-differ(reported-by-C01)"
            return out, None
    return out, r


def render(spec):
    return c01.render(spec)


def patch_symbol(module_symbols_by_name, base):
    """Find the symbol a patch label became: exact name, or name + _<digits>
    (temporary labels get the per-invocation suffix)."""
    hits = []
    for name, sym in module_symbols_by_name.items():
        if name == base:
            hits.append(sym)
        elif name.startswith(base + "_") and name[len(base) + 1:].isdigit():
            hits.append(sym)
    return hits
