"""C01 - rewriting edits bytes exactly like editing the assembly listing."""

from ..core import Outcome, exc_kind
from .. import isa as I
from .. import listing as Lm

ID = "C01"
TECHNIQUE = ("property-based testing (Hypothesis, spec-first generated modules and edit sets) "
             "against an independent listing-edit reference model")
RULE = ("a case is a generated listing (1-3 sections of one or several contiguous byte intervals, code and data blocks, labels, functions, "
        "symbolic operands; five ISA/format pairs) plus 1-5 (thorough 1-9) non-overlapping "
        "insert_at/replace_at/delete_at/register_insert (AllBlocksScope, SingleBlockScope) requests on instruction boundaries in "
        "arbitrary registration order (one edit element in eight is a chain of whole-block deletions of 2-4 consecutive blocks, "
        "each with its own retarget_to_proxy flag), patches of instructions, data directives and `.balign 1` (splits the patch's "
        "block, never pads); the input CFG's edges are "
        "added in derivation order or in a generated permutation; "
        "section bytes after RewritingContext.apply() must equal the bytes of the list-edited listing (with alignment metadata: "
        "once whole nop/zero runs in front of aligned blocks are removed). "
        "Non-trivial = >=2 effective edits of which two touch the same or physically adjacent blocks, or a "
        "whole-block deletion next to another edit; distinct by spec hash.")
ASSUMPTIONS = [
    "expected instruction bytes come from a template table calibrated against mcasm/capstone at start-up",
    "registration orders in which a zero-length insertion is registered after a replace/delete starting at the "
    "same offset are outside the domain (the library's own overlap rule, pinned by "
    "tests/test_rewriting.py::test_conflicting_insertion_replacement); counted as dropped.touching_after",
    "one case in six carries an alignment table and is judged with C10's padding-aware comparison (whole nops after code / "
    "zeros after data in front of aligned blocks may appear, nothing else; alignments that held still hold)",
]


def calibrate():
    I.calibrate()


def strategy(tier):
    from hypothesis import strategies as st

    base = Lm.case_st(tier, scopes=True, pdata=True, ivs=True)
    # one case in six carries alignment metadata: the only bytes that may appear beyond the edited listing are
    # whole nops / zeros in front of aligned blocks, and every alignment that held still holds (judged with C10's
    # padding-aware comparison)
    al = st.tuples(Lm.case_st(tier, pairs=[("x64", "elf"), ("x64", "pe"), ("arm64", "elf"), ("ia32", "pe")]),
                   st.lists(st.sampled_from([0, 0, 2, 4, 8, 16]), min_size=1, max_size=8)).map(
        lambda t: {"k": "align", **t[0], "align": t[1]})
    return st.one_of(base, base, base, base, base, al)


def budget(tier):
    return 30_000 if tier == "quick" else 400_000


def _touching(case):
    eds = case.edits
    if len(eds) < 2:
        return False
    blocks = sorted({e.b for e in eds})
    per = {}
    for e in eds:
        per[e.b] = per.get(e.b, 0) + 1
    if any(v >= 2 for v in per.values()):
        return True
    for a, b in zip(blocks, blocks[1:]):
        if b == a + 1 and case.blocks[a].sec == case.blocks[b].sec:
            return True
    return False


def classes(case, exp):
    cl = [f"isa={case.isa}/{case.fmt}", f"edits={min(len(case.edits), 6)}"]
    ops = {e.op for e in case.edits}
    cl += [f"op:{o}" for o in sorted(ops)]
    if exp.deleted_blocks:
        cl.append("whole-block-deletion")
    if exp.proxy_blocks:
        cl.append("retarget-to-proxy")
    per = {}
    for e in case.edits:
        per[e.b] = per.get(e.b, 0) + 1
    if any(v >= 2 for v in per.values()):
        cl.append("two-edits-one-block")
    if any(not case.blocks[e.b].code for e in case.edits):
        cl.append("edit-in-data-block")
    if any(e.scope for e in case.edits):
        cl.append("register_insert-scope")
    if any(case.dropped.values()):
        cl.append("some-edits-dropped")
    if any(b.newiv for b in case.blocks):
        cl.append("several-intervals-in-a-section")
    return cl


def in_known_class(fid, spec, failure):
    if spec.get("k") == "align":
        return False
    allow = bool(spec.get("allow_after_full_delete"))
    case = Lm.Case(spec, allow_after_full_delete=allow)
    if fid == "C01-after-full-delete":
        return _after_full(case)
    if fid == "C01-call-at-section-end":
        return Lm.call_at_section_end(case)
    if fid == "C01-layout-reorders-intervals":
        return Lm.multi_interval_growth(case)
    return False


def _after_full(case):
    for ed in case.edits:
        nu = len(case.blocks[ed.b].units)
        for o in case.edits:
            if o is ed or o.b != ed.b or o.op != "delete" or o.n == 0:
                continue
            if o.i + o.n == nu and (ed.i, ed.reg) > (o.i, o.reg):
                return True
    return False


def evaluate(spec):
    if spec.get("k") == "align":
        from . import c10

        out = c10._eval_align(spec)
        for f in out.failures:
            f.clause = "C01.alignment"
        out.classes.append("family=alignment-metadata")
        return out
    out = Outcome()
    allow = bool(spec.get("allow_after_full_delete"))
    r = Lm.execute(spec, allow_after_full_delete=allow)
    case, exp = r.case, r.exp
    if r.excluded:
        out.excluded = r.excluded
        return out
    out.classes = classes(case, exp)
    out.nontrivial = _touching(case) or (bool(exp.deleted_blocks) and len(case.edits) >= 2)
    if r.error is not None:
        out.fail("C01.apply-raises", exc_kind(r.error), repr(r.error)[:500])
        return out
    for p in r.obs.problems:
        out.fail("C01.bytes", "layout-problem", p)
    for name, order in r.obs.reordered:
        out.fail("C01.interval-order", "intervals-reordered",
                 f"section {name}: the input's byte intervals now lie in address order {order}", "reordered")
    for si, (name, _) in enumerate(case.sections):
        want, got = exp.sec_bytes[si], r.obs.sec_bytes[si]
        if want != got:
            k = next((i for i in range(min(len(want), len(got))) if want[i] != got[i]), min(len(want), len(got)))
            kind = "length" if len(want) != len(got) else "content"
            out.fail("C01.bytes", f"section-bytes-{kind}",
                     f"section {name}: first difference at {k}: expected {want.hex()} got {got.hex()}")
    return out


def render(spec):
    if spec.get("k") == "align":
        from . import c10

        return c10.render(spec)
    try:
        return Lm.describe(Lm.Case(spec, allow_after_full_delete=bool(spec.get("allow_after_full_delete"))))
    except Exception:
        return spec
