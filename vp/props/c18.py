"""C18 - retarget_symbol_uses is complete and precise."""

from hypothesis import strategies as st

from .. import isa as I
from .. import listing as Lm
from ..core import BadSpec, Outcome, exc_kind

ID = "C18"
TECHNIQUE = ("property-based testing (Hypothesis) against the listing reference model: every mention of a symbol "
             "(expressions in code and data, CFI directives, symbolForwarding values, branch/call edges) is enumerated "
             "before and after RewritingContext.retarget_symbol_uses()+apply() and compared with the expectation derived "
             "from the listing and a pinned attribute-rule table")
RULE = ("a case is a generated listing (x86-64 ELF/PE, IA32, ARM64; PIE and non-PIE) whose instructions and data words "
        "use symbols, with CFI personality/LSDA and symbolForwarding entries, plus 1-3 simultaneous retargets A->B "
        "(internal/external in all combinations, chains A->B & B->C, aliases sharing a referent), optionally combined with "
        "ordinary insertions. Every use of A must name B with the same addend and with attributes converted by the "
        "internal/external rule of the ABI; every other expression, directive, table entry and CFG edge must be "
        "untouched; exactly the branch/call edges of instructions whose operand was A lead to B's referent; invalid "
        "requests (foreign module, referent-less target, retargeting twice, control flow into data, SymAddrAddr uses) "
        "raise. Non-trivial = A has >= 2 uses of different kinds, or a chain/alias is present; distinct by spec hash.")
ASSUMPTIONS = [
    "the attribute rule table (x86-64 PIE data-ref {} <-> {GOT,PCREL}, control-flow {} <-> {PLT}; non-PIE {} <-> {PLT}; "
    "ARM64 PIE {LO12} <-> {LO12,GOT} and {} <-> {GOT}; no rule = unchanged) is pinned in the reference from the baseline tree",
    "input expressions carry the attributes their internal/external state implies under those rules",
]
PAIRS = [("x64", "elf"), ("x64", "pe"), ("ia32", "pe"), ("arm64", "elf")]


def calibrate():
    I.calibrate()


def strategy(tier):
    base = Lm.case_st(tier, pairs=PAIRS, max_edits=2, min_edits=0)
    rt = st.lists(st.fixed_dictionaries({"a": st.integers(0, 40), "b": st.integers(0, 40)}), min_size=1, max_size=3)
    return st.tuples(base, rt, st.booleans(), st.sampled_from(["ok", "ok", "ok", "ok", "twice", "saa", "no-referent"]),
                     st.lists(st.integers(0, 40), max_size=3)).map(
        lambda t: {**t[0], "retargets": t[1], "pie": t[2], "mode": t[3], "cfi_syms": t[4]})


def budget(tier):
    return 20_000 if tier == "quick" else 300_000


def rule_attrs(isa, fmt, pie, access, tname, defined):
    """the attributes an expression carries under the ABI's internal/external rule; None = no rule"""
    import gtirb

    A = gtirb.SymbolicExpression.Attribute
    if (isa, fmt) == ("x64", "elf"):
        if pie:
            if access == "code":
                return set() if defined else {A.GOT, A.PCREL}
            if access == "cf":
                return set() if defined else {A.PLT}
            return None
        if access in ("cf", "code"):
            return set() if defined else {A.PLT}
        return None
    if (isa, fmt) == ("arm64", "elf") and pie:
        if access == "code":
            if tname == "load":
                return {A.LO12} if defined else {A.LO12, A.GOT}
            return set() if defined else {A.GOT}
        return None
    return None


def in_known_class(fid, spec, failure):
    if fid == "C18-return-edges-do-not-follow":
        return (failure.get("data") or {}).get("return_edge_related", False)
    return False


def evaluate(spec):
    import gtirb
    import gtirb_rewriting as gr
    from gtirb_rewriting._auxdata import NULL_UUID
    from gtirb_rewriting._modify.edit import AmbiguousIRError

    out = Outcome()
    # only ordinary insertions are combined with retargets
    edits = []
    for e in spec.get("edits", []):
        if e.get("op") == "insert":
            toks = [t for t in e["patch"]["toks"] if "t" in t and t["t"] in ("nop", "xor", "push", "pop", "mark")]
            if toks:
                edits.append({**e, "patch": {"toks": toks}})
    case = Lm.Case({**spec, "edits": edits})
    isa, fmt = case.isa, case.fmt
    if (isa, fmt) not in PAIRS:
        raise BadSpec("pair")
    pie = bool(spec.get("pie")) and fmt == "elf"
    built = Lm.build(case)
    m = built.module
    if pie:
        m.aux_data["binaryType"] = gtirb.AuxData(["DYN"], "sequence<string>")
    else:
        m.aux_data["binaryType"] = gtirb.AuxData(["EXEC"], "sequence<string>")
    pool = sorted(case.label_block) + case.externs
    if not pool:
        raise BadSpec("no symbols")

    def defined(name):
        return name in case.label_block

    # give every input expression the attributes its state implies
    unit_at = {}
    for b in case.blocks:
        blk = built.blocks[b.gidx]
        for k, u in enumerate(b.units):
            if u.sym is None:
                continue
            access = "data" if u.kind == "data" else ("cf" if u.kind in ("jmp", "jcc", "call", "icall", "ijmp") else "code")
            tname = None
            if b.code:
                tname = next((t.name for t in I.TABLES[isa] if t.kind == u.kind and len(t.bytes) == len(u.data)
                              and t.symfield == u.field), None)
                if isa == "arm64" and u.kind == "ord":
                    tname = "load" if u.data == I.table(isa)["load"].bytes else "lea"
            off = blk.offset + b.uoffs[k] + u.field[0]
            bi = blk.byte_interval
            attrs = rule_attrs(isa, fmt, pie, access, tname, defined(u.sym))
            e = bi.symbolic_expressions[off]
            if attrs:
                bi.symbolic_expressions[off] = gtirb.SymAddrConst(e.offset, e.symbol, attrs)
            unit_at[(id(bi), off)] = (u, access, tname)
    # an indirect call / jump through a memory operand that names a code symbol or an extern is resolved in the
    # input CFG (as a disassembler would): its edge leads to the symbol's referent and is labelled indirect
    resolved = {}
    ET0 = gtirb.Edge.Type
    for b in case.blocks:
        if not (b.code and b.units[-1].kind in ("icall", "ijmp") and b.units[-1].sym is not None):
            continue
        nm = b.units[-1].sym
        if nm in case.externs:
            tgt = built.proxies[nm]
        elif case.label_block[nm][1] == "start" and case.blocks[case.label_block[nm][0]].code:
            tgt = built.blocks[case.label_block[nm][0]]
        else:
            continue
        src = built.blocks[b.gidx]
        for e in list(src.outgoing_edges):
            if e.label and e.label.type in (ET0.Branch, ET0.Call) and isinstance(e.target, gtirb.ProxyBlock) and not e.label.direct:
                built.ir.cfg.discard(e)
                built.ir.cfg.add(gtirb.Edge(src, tgt, e.label))
                resolved[b.gidx] = nm
    # CFI + symbolForwarding mentions
    cfi_syms = [pool[i % len(pool)] for i in spec.get("cfi_syms", [])]
    code = [b for b in case.blocks if b.code]
    cfi_table = {}
    if code and cfi_syms:
        cb = built.blocks[code[0].gidx]
        ds = [(".cfi_startproc", [], NULL_UUID)]
        for k, nm in enumerate(cfi_syms):
            ds.append(((".cfi_personality", ".cfi_lsda", ".cfi_val_offset")[k % 3], [0x9B] if k % 3 < 2 else [3, 8], built.symbols[nm]))
        cfi_table[gtirb.Offset(cb, 0)] = ds
        cfi_table[gtirb.Offset(cb, cb.size)] = [(".cfi_endproc", [], NULL_UUID)]
        m.aux_data["cfiDirectives"] = gtirb.AuxData(cfi_table, "mapping<Offset,sequence<tuple<string,sequence<int64_t>,UUID>>>")
    fwd = {}
    for k, nm in enumerate(pool[:3]):
        fwd[built.symbols[pool[(k + 1) % len(pool)]]] = built.symbols[nm]
    m.aux_data["symbolForwarding"] = gtirb.AuxData(dict(fwd), "mapping<UUID,UUID>")
    # retargets
    mapping = {}
    for r in spec["retargets"]:
        ai = r["a"] % len(pool)
        a, b = pool[ai], pool[(ai + 1 + r["b"] % max(1, len(pool) - 1)) % len(pool)]
        if a != b and a not in mapping:
            mapping[a] = b
    if not mapping:
        out.excluded = "no-effective-retarget"
        return out
    mode = spec.get("mode", "ok")
    ctx = gr.RewritingContext(m, Lm.functions_of(m))
    Lm.register(case, built, ctx)
    # ---- invalid requests -----------------------------------------------------
    if mode == "twice":
        a, b = next(iter(mapping.items()))
        ctx.retarget_symbol_uses(built.symbols[a], built.symbols[b])
        try:
            ctx.retarget_symbol_uses(built.symbols[a], built.symbols[b])
            out.fail("C18.invalid", "retargeting-twice-accepted", a)
        except ValueError:
            pass
        other = gtirb.Symbol(name="foreign", payload=gtirb.ProxyBlock())
        for args in ((other, built.symbols[b]), (built.symbols[b], other)):
            try:
                ctx.retarget_symbol_uses(*args)
                out.fail("C18.invalid", "foreign-symbol-accepted", "")
            except ValueError:
                pass
        out.classes = ["mode=invalid-requests"]
        out.nontrivial = True
        return out
    if mode == "no-referent":
        a = next(iter(mapping))
        ghost = gtirb.Symbol(name="ghost", module=m)
        try:
            ctx.retarget_symbol_uses(built.symbols[a], ghost)
            out.fail("C18.invalid", "referent-less-target-accepted", "")
        except ValueError:
            pass
        out.classes = ["mode=invalid-requests"]
        out.nontrivial = True
        return out
    saa = None
    if mode == "saa":
        # a SymAddrAddr use of A must not be skipped silently
        a = next(iter(mapping))
        datab = [b for b in case.blocks if not b.code]
        if datab:
            blk = built.blocks[datab[0].gidx]
            off = blk.offset
            if off not in blk.byte_interval.symbolic_expressions:
                blk.byte_interval.symbolic_expressions[off] = gtirb.SymAddrAddr(1, 0, built.symbols[a], built.symbols[pool[0]])
                saa = a
    for a, b in mapping.items():
        ctx.retarget_symbol_uses(built.symbols[a], built.symbols[b])
    # ---- expectation -----------------------------------------------------------
    exp = Lm.Expected(case)
    uses = {}
    cf_into_data = False
    cf_target_edited = False
    for insns in exp.insns:
        for e in insns:
            u = e.unit
            if u.sym in mapping:
                kind = "data" if u.kind == "data" else ("cf" if u.kind in ("jmp", "jcc", "call", "icall", "ijmp") else "code")
                uses.setdefault(u.sym, set()).add(kind)
                if u.kind in ("icall", "ijmp") and not (u.origin[0] == "orig" and u.origin[1] in resolved):
                    # unresolved indirect transfer: no edge leads to A's referent, nothing to refuse
                    continue
                if kind == "cf" and mapping[u.sym] in case.label_block and not case.blocks[case.label_block[mapping[u.sym]][0]].code:
                    cf_into_data = True
                    # code spliced into the target data block may turn the
                    # label's position into code: either outcome is possible
                    if any(ed.b == case.label_block[mapping[u.sym]][0] for ed in case.edits):
                        cf_target_edited = True
    for nm in cfi_syms:
        if nm in mapping:
            uses.setdefault(nm, set()).add("cfi")
    chain = any(b in mapping for b in mapping.values())
    alias = any(case.label_block.get(a, ("x",))[0] == case.label_block.get(o, ("y",))[0]
                for a in mapping for o in pool if o != a and a in case.label_block and o in case.label_block)
    out.nontrivial = any(len(k) >= 2 for k in uses.values()) or chain
    out.classes = [f"isa={isa}/{fmt}", "pie" if pie else "non-pie", f"retargets={len(mapping)}"] + \
        (["chain"] if chain else []) + (["alias-present"] if alias else []) + \
        sorted({"use:" + k for ks in uses.values() for k in ks}) + \
        sorted({("int" if defined(a) else "ext") + "->" + ("int" if defined(b) else "ext") for a, b in mapping.items()})
    cfg_before = {(id(e.source), id(e.target), str(e.label)) for e in built.ir.cfg}
    edges_before = list(built.ir.cfg)
    err = None
    try:
        ctx.apply()
    except Exception as e:
        err = e
    if saa is not None:
        if not (isinstance(err, NotImplementedError) or (cf_into_data and isinstance(err, AmbiguousIRError))):
            out.fail("C18.invalid", "symaddraddr-use-not-refused", f"{type(err).__name__ if err else 'no error'}")
        return out
    if cf_into_data:
        if cf_target_edited:
            out.excluded = "control-flow-retargeted-into-a-data-block-that-receives-code"
            return out
        if not isinstance(err, AmbiguousIRError):
            out.fail("C18.invalid", "control-flow-into-data-not-refused", f"{type(err).__name__ if err else 'no error'}")
        return out
    if err is not None:
        out.fail("C18.apply", "raises:" + exc_kind(err), repr(err)[:300])
        return out
    obs = Lm.Observed(built)
    # ---- expressions ---------------------------------------------------------------
    want = {}
    for si, insns in enumerate(exp.insns):
        for e in insns:
            u = e.unit
            if u.sym is None:
                continue
            access = "data" if u.kind == "data" else ("cf" if u.kind in ("jmp", "jcc", "call", "icall", "ijmp") else "code")
            tname = None
            if isa == "arm64" and u.kind == "ord":
                tname = "load" if u.data[:4] == I.table(isa)["load"].bytes else "lea"
            patch_made = u.origin[0] == "patch"
            cur = set() if patch_made else (rule_attrs(isa, fmt, pie, access, tname, defined(u.sym)) or set())
            name = u.sym
            attrs = cur
            if name in mapping:
                new = mapping[name]
                r_old = rule_attrs(isa, fmt, pie, access, tname, defined(name))
                if r_old is not None and r_old == cur:
                    attrs = rule_attrs(isa, fmt, pie, access, tname, defined(new))
                name = new
            want[(si, e.pos + u.field[0])] = (name, u.addend, attrs, u.sym)
    got = {}
    for bi, base in obs.base.items():
        for off, e in bi.symbolic_expressions.items():
            got[(obs.sec_of[bi], base + off)] = e
    for p in sorted(set(want) | set(got)):
        if p not in want or p not in got:
            out.fail("C18.expressions", "expression-set-changed", f"{p}: expected {want.get(p)} got {got.get(p)}")
            continue
        name, addend, attrs, orig = want[p]
        e = got[p]
        sig = "retargeted" if orig in mapping else "bystander"
        if not isinstance(e, gtirb.SymAddrConst) or e.symbol is not built.symbols.get(name):
            out.fail("C18.expressions", "wrong-symbol", f"{p}: names {getattr(e, 'symbol', e).name if hasattr(e, 'symbol') else e}, expected {name} (was {orig})", sig)
        elif e.offset != addend:
            out.fail("C18.expressions", "addend-changed", f"{p}: {e.offset} expected {addend}", sig)
        elif set(e.attributes) != attrs:
            out.fail("C18.expressions", "attributes", f"{p} ({orig} -> {name}): {set(e.attributes)} expected {attrs}", sig)
    # ---- CFI / forwarding -------------------------------------------------------------
    if cfi_table:
        gotc = []
        for key, ds in sorted(m.aux_data["cfiDirectives"].data.items(), key=lambda kv: kv[0].displacement):
            for d, a, s in ds:
                gotc.append((d, list(a), s.name if isinstance(s, gtirb.Symbol) else None))
        wantc = [(".cfi_startproc", [], None)]
        for k, nm in enumerate(cfi_syms):
            wantc.append(((".cfi_personality", ".cfi_lsda", ".cfi_val_offset")[k % 3], [0x9B] if k % 3 < 2 else [3, 8], mapping.get(nm, nm)))
        wantc.append((".cfi_endproc", [], None))
        if gotc != wantc:
            out.fail("C18.cfi", "directives-differ", f"{gotc} expected {wantc}")
    gotf = {k.name: v.name for k, v in m.aux_data["symbolForwarding"].data.items()}
    wantf = {k.name: mapping.get(v.name, v.name) for k, v in fwd.items()}
    if gotf != wantf:
        out.fail("C18.forwarding", "table-differs", f"{gotf} expected {wantf}")
    # ---- CFG ---------------------------------------------------------------------------
    def node_of(name):
        if name in case.externs:
            return built.proxies[name]
        return built.blocks[case.label_block[name][0]]

    expected_edges = set()
    changed_sources = {}
    for b in case.blocks:
        if b.code and (b.units[-1].kind in ("jmp", "jcc", "call") or b.gidx in resolved) and b.units[-1].sym in mapping:
            changed_sources[id(built.blocks[b.gidx])] = (b.units[-1].sym, mapping[b.units[-1].sym])
    retsite_related = False
    ET = gtirb.Edge.Type
    for e in edges_before:
        src = e.source
        if id(src) in changed_sources and e.label and e.label.type in (ET.Branch, ET.Call):
            a, bname = changed_sources[id(src)]
            if e.target is node_of(a):
                expected_edges.add((id(src), id(node_of(bname)), str(e.label)))
                continue
        expected_edges.add((id(e.source), id(e.target), str(e.label)))
    if not edits:
        got_edges = {(id(e.source), id(e.target), str(e.label)) for e in built.ir.cfg}
        if got_edges != expected_edges:
            extra = got_edges - expected_edges
            missing = expected_edges - got_edges
            out.fail("C18.cfg", "edges-differ", f"{len(extra)} unexpected, {len(missing)} missing edges", "")
        # return edges should follow retargeted calls
        for b in case.blocks:
            if b.code and b.units[-1].kind == "call" and b.units[-1].sym in mapping:
                a, bname = b.units[-1].sym, mapping[b.units[-1].sym]
                fa = case.blocks[case.label_block[a][0]].func if a in case.label_block else None
                fb = case.blocks[case.label_block[bname][0]].func if bname in case.label_block else None
                site = Lm._next_code_block(case, b.gidx)
                if site is None or fa == fb:
                    continue
                for f_, should in ((fa, False), (fb, True)):
                    if f_ is None:
                        continue
                    for g in case.funcs[f_]:
                        blk = built.blocks[g]
                        if case.blocks[g].units[-1].kind != "ret":
                            continue
                        has = any(e.label and e.label.type == ET.Return and e.target is built.blocks[site] for e in blk.outgoing_edges)
                        # another call into the same function with the same return site keeps the edge legitimately
                        others = any(bb.code and bb.units[-1].kind == "call" and bb is not b and bb.units[-1].sym in case.label_block
                                     and mapping.get(bb.units[-1].sym, bb.units[-1].sym) in case.label_block
                                     and case.blocks[case.label_block[mapping.get(bb.units[-1].sym, bb.units[-1].sym)][0]].func == f_
                                     and Lm._next_code_block(case, bb.gidx) == site for bb in case.blocks)
                        if should and not has:
                            out.fail("C18.returns", "callee-does-not-return-to-retargeted-call-site", f"{bname} ({f_})", "",
                                     data={"return_edge_related": True})
                        if not should and has and not others:
                            out.fail("C18.returns", "old-callee-still-returns-to-call-site", f"{a} ({f_})", "",
                                     data={"return_edge_related": True})
    return out


def render(spec):
    try:
        d = Lm.describe(Lm.Case({**spec, "edits": []}))
        d.pop("edits", None)
        d.update({"retargets": spec["retargets"], "pie": spec["pie"], "mode": spec["mode"], "cfi_syms": spec["cfi_syms"]})
        return d
    except Exception:
        return spec
