"""C11 - rewriting is deterministic."""

import hashlib
import json
import os
import subprocess
import sys
import tempfile

from .. import isa as I
from .. import listing as Lm
from .. import observe as Ob
from ..core import ROOT, Outcome, Recorder, exc_kind, hypothesis_settings
from . import _rw, c01

ID = "C11"
TECHNIQUE = ("property-based metamorphic testing (Hypothesis): each generated rewrite is repeated in fresh processes "
             "with different PYTHONHASHSEED values (hence different set orders, object ids and UUIDs), with fresh UUIDs, "
             "with a permuted registration order of modifications at different locations, and with junk nodes perturbing "
             "set layouts; all UUID-free canonical dumps must be identical")
RULE = ("cases as in C01-C03 (several byte intervals per section; patches optionally with Constraints: clobbered / scratch / "
        "caller-saved registers, flags, align_stack; in half of the cases the input's return edges are perturbed: one removed, "
        "one added, or the returning blocks of a function given different return sites). For every spec: the canonical dump (block boundaries, edge multiset, symbol names incl. "
        "temporary-label suffixes, aux data) of (base run) == (second run, fresh UUIDs) == (registration order permuted "
        "among modifications that target different locations) == (junk symbols/proxies added first) == (the same spec "
        "rewritten in K child processes with other PYTHONHASHSEED values; quick K=3, thorough K=8); and, for cases with >= 2 "
        "modifications in single-interval sections, the modifications applied one at a time (a RewritingContext each, so "
        "that later contexts start from what earlier rewrites left behind) three times with fresh objects. An exception in one "
        "configuration and not in another is a disagreement too. Non-trivial = the case edits or deletes a block that "
        "carries >= 2 symbols, or has >= 2 modifications; distinct by spec hash.")
ASSUMPTIONS = [
    "a process can only vary hash seed, ASLR/object ids, UUID draws, registration order and set layouts; order-independence is not proven",
]
K = {"quick": 3, "thorough": 8}
SHRINK_STEPS = {"quick": 30, "thorough": 150}   # every step spawns child interpreters


def calibrate():
    I.calibrate()


def strategy(tier):
    from hypothesis import strategies as st

    con = st.fixed_dictionaries({"clob": st.lists(st.integers(0, 10), max_size=3), "flags": st.booleans(),
                                 "align": st.booleans(), "caller": st.booleans(), "scratch": st.integers(0, 2)})
    cons = st.one_of(st.none(), st.lists(con, min_size=1, max_size=3))
    noise = st.one_of(st.just([]), st.lists(st.integers(0, 200), min_size=1, max_size=3))
    return st.tuples(Lm.case_st(tier, ivs=True), cons, noise).map(lambda t: {**t[0], "cons": t[1], "cfgnoise": t[2]})


def in_known_class(fid, spec, failure):
    if fid == "C11-layout-order-depends-on-uuids":
        return Lm.multi_interval_growth(Lm.Case(spec))
    return False


def budget(tier):
    return 8_000 if tier == "quick" else 120_000


def _permuted(case, salt):
    """registration order permuted, relative order kept within one location"""
    groups = {}
    for ed in sorted(case.edits, key=lambda e: e.reg):
        groups.setdefault((ed.b, ed.i) if ed.scope is None else ("scope", ed.reg), []).append(ed)
    keys = sorted(groups, key=lambda k: hashlib.blake2b(repr((k, salt)).encode(), digest_size=4).hexdigest())
    # interleave: round-robin over the shuffled groups keeps each group's inner order
    out = []
    idx = {k: 0 for k in keys}
    while len(out) < len(case.edits):
        for k in keys:
            if idx[k] < len(groups[k]):
                out.append(groups[k][idx[k]])
                idx[k] += 1
    return out


def _same_offset_conflict(case):
    """two modifications at one byte offset of one block but different unit anchors cannot exist; but a
    zero-length one next to a ranged one at the same offset is order dependent by rule (touching_after)"""
    return False


def digest_of(spec, variant):
    """-> hex digest of the canonical dump, or 'EXC:<kind>'"""
    import gtirb

    case = Lm.Case(spec)
    exp = Lm.Expected(case)
    if Lm.out_of_domain(case, exp):
        return "EXCLUDED"
    built = Lm.build(case)
    junk = []
    if variant == "junk":
        m = built.module
        for k in range(7):
            junk.append(gtirb.Symbol(name=f"zz_junk{k}", module=m))
        for k in range(5):
            junk.append(gtirb.ProxyBlock(module=m))
    order = _permuted(case, spec.get("perm", 1)) if variant == "perm" else None
    try:
        Lm.rewrite(case, built, order=order)
    except Exception as e:
        return "EXC:" + exc_kind(e)
    for j in junk:
        if isinstance(j, gtirb.Symbol):
            built.module.symbols.discard(j)
        else:
            built.module.proxies.discard(j)
    return _dump_digest(built)


def digest_seq(spec):
    """the same modifications applied one at a time, each in its own RewritingContext (every later context builds
    its caches from an IR that earlier rewrites left behind, zero-sized blocks included)"""
    from . import c09

    case = Lm.Case(spec)
    exp = Lm.Expected(case)
    if Lm.out_of_domain(case, exp):
        return "EXCLUDED"
    built = Lm.build(case)
    try:
        st, err = c09._run_sequential(case, built)
    except Exception as e:
        return "EXC:" + exc_kind(e)
    if st == "unlocatable":
        return "UNLOCATABLE"
    if st == "raised":
        return "EXC:" + exc_kind(err)
    return _dump_digest(built)


def _dump_digest(built):
    # the address order in which the closing re-layout left the input's byte
    # intervals is compared separately (clause C11.layout-order); everything
    # else is compared on the listing order
    order = []
    for si, ivs0 in enumerate(built.intervals):
        if len(ivs0) > 1:
            k = {id(bi): j for j, bi in enumerate(ivs0)}
            order.append(",".join(str(k[id(bi)]) for bi in sorted(ivs0, key=lambda b: (b.address is None, b.address or 0))
                                  if bi.section is not None))
    if order and len(built.sections) > 1:
        secs = [sec for sec, _ in built.sections if sec.address is not None]
        order.append("S" + ",".join(str(secs.index(x)) for x in sorted(secs, key=lambda x: x.address)))
    Lm.pack_layout(built)
    dump = Ob.canonical_dump(built.ir)
    d = hashlib.blake2b(json.dumps(dump, sort_keys=True, default=str).encode(), digest_size=12).hexdigest()
    return d + ("|L:" + ";".join(order) if order else "")


def _judge(out, clause, d0, d, prefix=""):
    if d == d0:
        return False
    if d.startswith("EXC") or d0.startswith("EXC"):
        out.fail(clause, "exception-differs", f"{prefix}{d0} vs {d}")
    elif d.split("|")[0] == d0.split("|")[0]:
        out.fail("C11.layout-order", "interval-order-differs", f"{prefix}{d0} vs {d}", "layout")
    else:
        out.fail(clause, "dump-differs", f"{prefix}{d0} vs {d}")
    return True


def _judge_sequence(out, spec, case):
    """a sequence of rewrites is deterministic too: the modifications one at a time, three times with fresh objects"""
    if len(case.edits) < 2 or spec.get("multi_iv"):
        return
    s0 = digest_seq(spec)
    if s0 in ("EXCLUDED", "UNLOCATABLE"):
        return
    out.classes.append("sequence-of-rewrites")
    for _ in range(2):
        if _judge(out, "C11.sequence", s0, digest_seq(spec)):
            break


def _nontrivial(case):
    if len(case.edits) >= 2:
        return True
    for ed in case.edits:
        b = case.blocks[ed.b]
        if len(b.labels) + len(b.end_labels) >= 2:
            return True
    return False


def worker(rec, tier, shard_seed, n_examples):
    import hypothesis
    from hypothesis import given

    specs = []

    @hypothesis.seed(shard_seed)
    @hypothesis_settings(n_examples)
    @given(strategy(tier))
    def collect(spec):
        specs.append(spec)

    collect()
    me = sys.modules[__name__]
    base = []
    for spec in specs:
        out = Outcome()
        try:
            case = Lm.Case(spec)
        except Exception:
            base.append(None)
            continue
        d0 = digest_of(spec, "base")
        base.append(d0)
        if d0 == "EXCLUDED":
            out.excluded = "patch-branch-to-noncode-position"
            rec.record(me, spec, out)
            continue
        out.classes = c01.classes(case, Lm.Expected(case))
        if spec.get("cons"):
            out.classes.append("patches-with-constraints")
        if spec.get("cfgnoise"):
            out.classes.append("return-edges-perturbed")
        out.nontrivial = _nontrivial(case)
        for variant in ("base", "perm", "junk"):
            _judge(out, "C11." + ("repeat" if variant == "base" else variant), d0, digest_of(spec, variant))
        _judge_sequence(out, spec, case)
        spec["_base"] = d0
        rec.pending = getattr(rec, "pending", [])
        rec.pending.append((spec, out))
    # children with other hash seeds
    with tempfile.NamedTemporaryFile("w", suffix=".json", delete=False) as f:
        json.dump([{k: v for k, v in s.items() if k != "_base"} for s in specs], f)
        path = f.name
    try:
        results = []
        for k in range(1, K[tier] + 1):
            env = dict(os.environ, PYTHONHASHSEED=str(1000 * k + shard_seed % 997), PYTHONPATH=ROOT)
            p = subprocess.run([sys.executable, "-m", "vp.c11child", path], cwd=ROOT, env=env,
                               capture_output=True, text=True)
            if p.returncode != 0:
                rec.harness_errors.append("c11 child failed: " + p.stderr[-1500:])
                return
            results.append(json.loads(p.stdout))
    finally:
        os.unlink(path)
    by_spec = {id(s): i for i, s in enumerate(specs)}
    for spec, out in getattr(rec, "pending", []):
        i = by_spec[id(spec)]
        d0 = spec.pop("_base")
        for k, res in enumerate(results):
            if _judge(out, "C11.hashseed", d0, str(res[i]), f"PYTHONHASHSEED variant {k + 1}: "):
                break
        rec.record(me, spec, out)
    rec.pending = []
    rec.notes["child_processes"] = K[tier]


def evaluate(spec):
    """replay / shrinking: in-process variants plus two child processes"""
    out = Outcome()
    case = Lm.Case(spec)
    d0 = digest_of(spec, "base")
    if d0 == "EXCLUDED":
        out.excluded = "patch-branch-to-noncode-position"
        return out
    out.nontrivial = _nontrivial(case)
    if spec.get("cons"):
        out.classes.append("patches-with-constraints")
    for variant in ("base", "perm", "junk"):
        _judge(out, "C11." + ("repeat" if variant == "base" else variant), d0, digest_of(spec, variant))
    _judge_sequence(out, spec, case)
    with tempfile.NamedTemporaryFile("w", suffix=".json", delete=False) as f:
        json.dump([spec], f)
        path = f.name
    try:
        for k in (1, 2, 3):
            env = dict(os.environ, PYTHONHASHSEED=str(4242 * k), PYTHONPATH=ROOT)
            p = subprocess.run([sys.executable, "-m", "vp.c11child", path], cwd=ROOT, env=env, capture_output=True, text=True)
            if p.returncode == 0:
                if _judge(out, "C11.hashseed", d0, str(json.loads(p.stdout)[0])):
                    break
    finally:
        os.unlink(path)
    return out


render = _rw.render
