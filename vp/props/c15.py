"""C15 - CFI evaluation implements the DWARF rules and fails cleanly."""

import copy as _copy

from hypothesis import strategies as st

from ..core import BadSpec, Outcome, exc_kind
from ..refmodels import cfi as RC
from ..refmodels import dwarf as R

ID = "C15"
TECHNIQUE = ("property-based differential testing (Hypothesis) of evaluate_cfi_directives against an independent "
             "reference CFI interpreter, on grammar-generated valid sequences and mutated invalid ones")
RULE = ("a case is a sequence of CFI directives over the evaluator's supported set (startproc, endproc, personality, "
        "lsda, return_column, def_cfa*, adjust_cfa_offset, undefined, same_value, register, restore, val_offset, offset, "
        "rel_offset, remember/restore_state, escape with def_cfa_expression / expression / val_expression / nop) "
        "with register columns 0-20 and a few beyond 63 / 127, distributed over 1-5 code blocks and several offsets per block, blocks passed in shuffled order, for the ABIs "
        "with a DWARF return column (x86-64 ELF, ARM64, MIPS32). 'Repaired' sequences are well-formed by construction, "
        "'raw' ones are arbitrary. The yielded (block, offset, state) triples must equal the reference's; ill-formed "
        "input must raise CFIStateError/ValueError at the same group the reference rejects; copies taken at yield time "
        "must still equal the reference after evaluation finished. Non-trivial = remember/restore nesting >= 2, or a "
        "restore of a register, or >= 2 procedures, or an invalid sequence; distinct by spec hash.")
ASSUMPTIONS = [
    "the two PE ABIs define no DWARF return column (NotImplementedError) and are outside the domain",
    "the 'directives at the startproc offset form the initial row' convention documented in cfi_eval.py is part of the reference",
    ".cfi_rel_offset semantics as pinned by tests/test_dwarf_cfi_eval.py (relative to the register's current CFA offset rule)",
    "expression operands are compared through their encoded bytes",
    "each ABI's default return column is taken from the library (configuration); byte order and pointer size are not: "
    "x86-64/ARM64 little endian 8 bytes, MIPS32 big endian 4 bytes",
]
ABIS = {
    "x64": ("X64", "ELF", 16, "little", 8),
    "arm64": ("ARM64", "ELF", 30, "little", 8),
    "mips32": ("MIPS32", "ELF", 31, "big", 4),
}
ENCODINGS = [0xFF, 0x00, 0x03, 0x1B, 0x9B]

# (mostly small columns so that rules interact; now and then a column whose
# LEB128 encoding needs the sign bit or a second byte)
_reg = st.one_of(st.integers(0, 20), st.integers(0, 20), st.integers(0, 20),
                 st.sampled_from([63, 64, 72, 118, 127, 128, 200, 8256]))
_off = st.integers(-64, 64)


def _d(name, *args, sym=None):
    return st.fixed_dictionaries({"d": st.just(name), "a": st.tuples(*args).map(list), "s": sym if sym is not None else st.none()})


_op = st.one_of(
    st.tuples(st.just("breg"), st.tuples(st.integers(0, 31), _off).map(list)),
    st.tuples(st.just("deref"), st.just([])),
    st.tuples(st.just("plus_uconst"), st.tuples(st.integers(0, 300)).map(list)),
    st.tuples(st.just("lit"), st.tuples(st.integers(0, 31)).map(list)),
    st.tuples(st.just("const2s"), st.tuples(st.integers(-300, 300)).map(list)),
).map(list)
_expr = st.lists(_op, max_size=3)
_esc_item = st.one_of(
    st.tuples(st.just("def_cfa_expression"), st.tuples(_expr).map(list)),
    st.tuples(st.just("expression"), st.tuples(_reg, _expr).map(list)),
    st.tuples(st.just("val_expression"), st.tuples(_reg, _expr).map(list)),
    st.tuples(st.just("nop"), st.just([])),
).map(list)
_sym = st.one_of(st.none(), st.integers(0, 1))
DIRECTIVE = st.one_of(
    _d(".cfi_startproc"), _d(".cfi_endproc"),
    _d(".cfi_def_cfa", _reg, st.integers(0, 64)), _d(".cfi_def_cfa", _reg, st.integers(0, 64)),
    _d(".cfi_def_cfa_register", _reg), _d(".cfi_def_cfa_offset", st.integers(0, 64)),
    _d(".cfi_adjust_cfa_offset", _off),
    _d(".cfi_undefined", _reg), _d(".cfi_same_value", _reg), _d(".cfi_register", _reg, _reg),
    _d(".cfi_restore", _reg), _d(".cfi_restore", _reg),
    _d(".cfi_val_offset", _reg, _off), _d(".cfi_offset", _reg, _off), _d(".cfi_offset", _reg, _off),
    _d(".cfi_rel_offset", _reg, _off),
    _d(".cfi_remember_state"), _d(".cfi_remember_state"), _d(".cfi_restore_state"), _d(".cfi_restore_state"),
    _d(".cfi_return_column", _reg),
    _d(".cfi_personality", st.sampled_from(ENCODINGS), sym=_sym),
    _d(".cfi_lsda", st.sampled_from(ENCODINGS), sym=_sym),
    st.fixed_dictionaries({"d": st.just(".cfi_escape"), "esc": st.lists(_esc_item, min_size=1, max_size=2), "s": st.none()}),
)


def strategy(tier):
    n = 14 if tier == "quick" else 40
    return st.fixed_dictionaries({
        "abi": st.sampled_from(sorted(ABIS)),
        "raw": st.sampled_from([False, False, True]),
        "dirs": st.lists(DIRECTIVE, min_size=1, max_size=n),
        "cuts": st.lists(st.integers(0, 3), min_size=1, max_size=n),   # group/block boundaries
        "shuffle": st.integers(0, 1000),
    })


def budget(tier):
    return 60_000 if tier == "quick" else 1_500_000


def _repair(dirs):
    """Make a directive sequence well-formed (used when spec['raw'] is false)."""
    out = []
    inproc = False
    cfa_ro = False
    depth = []
    offs = set()
    for d in dirs:
        n = d["d"]
        if n == ".cfi_startproc":
            if inproc:
                continue
            inproc, cfa_ro, depth, offs = True, False, [], set()
            out.append(d)
            continue
        if not inproc:
            out.append({"d": ".cfi_startproc", "a": [], "s": None})
            inproc, cfa_ro, depth, offs = True, False, [], set()
        if n == ".cfi_endproc":
            inproc = False
        elif n == ".cfi_def_cfa":
            cfa_ro = True
        elif n in (".cfi_def_cfa_register", ".cfi_def_cfa_offset", ".cfi_adjust_cfa_offset") and not cfa_ro:
            d = {"d": ".cfi_def_cfa", "a": [7, 8], "s": None}
            cfa_ro = True
        elif n == ".cfi_escape":
            if any(it[0] == "def_cfa_expression" for it in d["esc"]):
                cfa_ro = False
            for it in d["esc"]:
                if it[0] in ("expression", "val_expression"):
                    offs.discard(it[1][0])
        elif n == ".cfi_remember_state":
            depth.append((cfa_ro, set(offs)))
        elif n == ".cfi_restore_state":
            if not depth:
                d = {"d": ".cfi_remember_state", "a": [], "s": None}
                depth.append((cfa_ro, set(offs)))
            else:
                cfa_ro, offs = depth.pop()
        elif n == ".cfi_offset":
            offs.add(d["a"][0])
        elif n == ".cfi_rel_offset":
            if d["a"][0] not in offs:
                d = {"d": ".cfi_offset", "a": list(d["a"]), "s": None}
                offs.add(d["a"][0])
        elif n in (".cfi_undefined", ".cfi_same_value", ".cfi_register", ".cfi_val_offset", ".cfi_restore"):
            offs.discard(d["a"][0])   # conservative: rule is no longer known to be CFA+offset
        elif n in (".cfi_personality", ".cfi_lsda"):
            if d["a"][0] != 0xFF and d["s"] is None:
                d = dict(d, s=0)
        out.append(d)
    if inproc:
        out.append({"d": ".cfi_endproc", "a": [], "s": None})
    return out


def _materialise(spec):
    """-> (abi tuple, blocks=[[(off, [(name,args,sym)])]])"""
    try:
        abi = ABIS[spec["abi"]]
        dirs = list(spec["dirs"])
        if not spec.get("raw"):
            dirs = _repair(dirs)
        order, fmt, retcol, bo, ptr = abi
        flat = []
        for d in dirs:
            if d["d"] == ".cfi_escape":
                data = b"".join(R.encode("cfa", (it[0], _ops(it)), bo, ptr) for it in d["esc"])
                flat.append((".cfi_escape", list(data), None))
            else:
                flat.append((d["d"], list(d["a"]), d.get("s")))
        cuts = list(spec["cuts"]) or [0]
    except (KeyError, TypeError, IndexError, R.OutOfRange) as e:
        raise BadSpec(repr(e))
    # distribute: cut value 0 = same group, 1 = new offset, 2 = new offset, 3 = new block
    blocks = [[(0, [])]]
    off = 0
    for k, item in enumerate(flat):
        c = cuts[k % len(cuts)] if k else 0
        if c == 3 and len(blocks) < 5:
            blocks.append([(0, [])])
            off = 0
        elif c in (1, 2):
            off += c
            blocks[-1].append((off, []))
        blocks[-1][-1][1].append(item)
    blocks = [[g for g in b if g[1]] for b in blocks]
    blocks = [b for b in blocks if b]
    return abi, blocks


def _ops(it):
    name, ops = it
    conv = []
    for o in ops:
        if isinstance(o, list) and (not o or isinstance(o[0], list)):
            conv.append([(x[0], list(x[1])) for x in o])
        else:
            conv.append(o)
    return conv


def _norm_rule(r):
    n = type(r).__name__
    if n == "RegisterUndefined":
        return ("undef",)
    if n == "RegisterSameValue":
        return ("same",)
    if n == "RegisterOffset":
        return ("off", r.offset)
    if n == "RegValOffset":
        return ("valoff", r.offset)
    if n == "RegisterInRegister":
        return ("reg", r.register)
    if n == "RegisterAtExpression":
        return ("atexpr", _enc(r.expression))
    if n == "RegisterIsExpression":
        return ("isexpr", _enc(r.expression))
    return ("?", n)


_CTX = ["little", 8]


def _enc(ops):
    return b"".join(bytes(o.encode(_CTX[0], _CTX[1])) for o in ops).hex()


def _norm_row(row):
    cfa = row.cfa
    if cfa is None:
        c = None
    elif type(cfa).__name__ == "CFARegisterOffset":
        c = ("ro", cfa.register, cfa.offset)
    else:
        c = ("expr", _enc(cfa.expression))
    return {"cfa": c, "regs": {k: _norm_rule(v) for k, v in row.registers.items()}}


def _norm_state(s):
    if s is None:
        return None
    def ptr(p):
        return None if p is None else (int(p.encoding), p.symbol.name)
    return {"ret": s.return_column, "pers": ptr(s.personality), "lsda": ptr(s.lsda),
            "cur": _norm_row(s.current), "init": _norm_row(s.initial),
            "stack": [_norm_row(r) for r in s.save_stack]}


def evaluate(spec):
    import uuid

    import gtirb

    from gtirb_rewriting._auxdata import NULL_UUID
    from gtirb_rewriting.dwarf.cfi_eval import CFIStateError, evaluate_cfi_directives

    out = Outcome()
    abi, blocks = _materialise(spec)
    isa, fmt, retcol, bo, ptr = abi
    _CTX[0], _CTX[1] = bo, ptr
    out.classes.append("abi=" + spec["abi"])
    out.classes.append("raw" if spec.get("raw") else "repaired")
    ir = gtirb.IR()
    m = gtirb.Module(name="m", isa=getattr(gtirb.Module.ISA, isa), file_format=getattr(gtirb.Module.FileFormat, fmt), ir=ir)
    m.byte_order = gtirb.Module.ByteOrder.Big if bo == "big" else gtirb.Module.ByteOrder.Little
    sec = gtirb.Section(name=".text", module=m)
    bi = gtirb.ByteInterval(contents=bytes(16 * len(blocks)), address=0x1000, section=sec)
    gblocks = [gtirb.CodeBlock(offset=16 * k, size=12, byte_interval=bi) for k in range(len(blocks))]
    syms = [gtirb.Symbol(name=f"sym{k}", payload=gblocks[0], module=m) for k in range(2)]
    table = {}
    groups = []
    for k, b in enumerate(blocks):
        for off, dirs in b:
            table[gtirb.Offset(gblocks[k], off)] = [
                (n, list(a), (syms[s] if s is not None else NULL_UUID)) for (n, a, s) in dirs]
            groups.append(((k, off), [(n, a, (f"sym{s}" if s is not None else None)) for (n, a, s) in dirs]))
    m.aux_data["cfiDirectives"] = gtirb.AuxData(
        table, "mapping<Offset,sequence<tuple<string,sequence<int64_t>,UUID>>>")
    # the ABI's default return column is configuration, not judged here
    from gtirb_rewriting.abi import ABI
    retcol = ABI.get(m).default_dwarf_eh_return_column()
    # reference
    want_err = None
    try:
        want = RC.evaluate(groups, retcol, bo, ptr)
    except RC.Reject as r:
        want_err = r
        want = None
    # library, blocks passed in shuffled order
    order = list(range(len(gblocks)))
    sh = spec.get("shuffle", 0)
    order = order[sh % len(order):] + order[:sh % len(order)]
    if sh % 2:
        order.reverse()
    got, live = [], []
    err = None
    try:
        for blk, off, state in evaluate_cfi_directives(m, [gblocks[i] for i in order]):
            got.append(((gblocks.index(blk), off), _copy.copy(state) if state is not None else None))
            live.append(state)
    except Exception as e:
        err = e
    nproc = sum(1 for _k, dirs in groups for (n, _a, _s) in dirs if n == ".cfi_startproc")
    depth = 0
    maxdepth = 0
    for _k, dirs in groups:
        for (n, _a, _s) in dirs:
            if n == ".cfi_remember_state":
                depth += 1
                maxdepth = max(maxdepth, depth)
            elif n in (".cfi_restore_state",):
                depth = max(0, depth - 1)
            elif n == ".cfi_endproc":
                depth = 0
    has_restore = any(n == ".cfi_restore" for _k, dirs in groups for (n, _a, _s) in dirs)
    out.nontrivial = maxdepth >= 2 or has_restore or nproc >= 2 or want_err is not None
    out.classes.append("invalid" if want_err is not None else "valid")
    if want_err is not None:
        out.classes.append("invalid:" + want_err.kind)
        if err is None:
            out.fail("C15.errors", "accepted-ill-formed", f"reference rejects at group {want_err.index}: {want_err}", want_err.kind)
            return out
        ok_type = isinstance(err, CFIStateError) if want_err.kind == "state" else isinstance(err, ValueError)
        if not isinstance(err, (CFIStateError, ValueError)):
            out.fail("C15.errors", "wrong-exception-type:" + exc_kind(err), f"{err!r}; reference: {want_err}", want_err.kind)
        elif not ok_type:
            out.fail("C15.errors", "other-error-class", f"{type(err).__name__} vs reference {want_err.kind}: {want_err}", want_err.kind)
        elif len(got) != want_err.index:
            out.fail("C15.errors", "rejected-at-other-point", f"library yielded {len(got)} groups, reference rejects group {want_err.index}")
        return out
    if err is not None:
        out.fail("C15.states", "raised-on-valid:" + exc_kind(err), repr(err)[:300])
        return out
    if [k for k, _ in got] != [k for k, _ in want]:
        out.fail("C15.states", "locations-differ", f"{[k for k, _ in got]} vs {[k for k, _ in want]}")
        return out
    for i, ((k, s), (_k2, w)) in enumerate(zip(got, want)):
        n = _norm_state(s)
        if n != w:
            field = next((f for f in (w or {}) if (n or {}).get(f) != w.get(f)), "none-ness") if (n and w) else "none-ness"
            out.fail("C15.states", "state-differs", f"group {i} at {k}: field {field}: library {n} reference {w}", field)
            break
    return out


def render(spec):
    try:
        abi, blocks = _materialise(spec)
        return {"abi": spec["abi"], "raw": spec.get("raw"),
                "blocks": [[f"+{off}: " + "; ".join(f"{n} {a}{' sym' + str(s) if s is not None else ''}" for n, a, s in dirs)
                            for off, dirs in b] for b in blocks]}
    except Exception:
        return spec
