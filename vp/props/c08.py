"""C08 - rewriting preserves call-frame (unwind) information."""

import copy

from .. import isa as I
from .. import listing as Lm
from ..refmodels import cfi as RC
from . import _rw

ID = "C08"
TECHNIQUE = ("property-based testing (Hypothesis) against the listing reference model plus an independent CFI "
             "interpreter: unwind state per instruction is computed for the input listing, the list-edited listing and "
             "the output cfiDirectives table and compared")
RULE = ("cases as in C01 (ELF ABIs: x86-64, ARM64, MIPS32) whose code blocks carry generated, well-formed CFI: 0-4 "
        "procedures per section starting/ending at block starts, instruction boundaries and block ends, def_cfa*, "
        "offset, adjust_cfa_offset, remember/restore_state, personality/LSDA with symbols, back-to-back procedures; "
        "patches carry no CFI or balanced CFI (adjust +n/-n, remember/restore, undefined). Clauses: (a) output evaluates "
        "cleanly (library evaluator and reference) with startproc/endproc alternating; (b) every surviving original "
        "instruction is inside a procedure iff it was; (c) without deletions the state at every original instruction is "
        "unchanged; (d) inserted code inside a procedure (including its very end) is inside it with the state at the "
        "insertion point plus the patch's own directives, patch CFI outside procedures is dropped; (e) with deletions "
        "remember/restore and startproc/endproc are never lost except for procedures whose instructions are all deleted. "
        "Non-trivial = an edit lands within one instruction of a directive position; distinct by spec hash.")
ASSUMPTIONS = [
    "PE ABIs define no DWARF return column and are excluded",
    "state equality at surviving instructions after a deletion is not demanded (the property promises it only when nothing is deleted)",
    "at one address, directives keyed at the end of a block are ordered before those keyed at offset 0 of the next block",
]
PAIRS = [("x64", "elf"), ("arm64", "elf"), ("mips32", "elf")]


def calibrate():
    I.calibrate()


def strategy(tier):
    return Lm.case_st(tier, pairs=PAIRS, cfi=True, ivs=True)


def budget(tier):
    return 25_000 if tier == "quick" else 400_000


def _states_from_stream(stream, retcol=16):
    """-> ({origin: (inproc, state)} per instruction, counts, error)"""
    st = None
    out = {}
    counts = {"start": 0, "end": 0, "rem": 0, "res": 0}
    patch_keep = {}
    cur_patch = None
    gi = 0
    for it in stream:
        if it[0] == "patchstart":
            cur_patch = (it[1], it[2])
            patch_keep[cur_patch] = st is not None
            continue
        if it[0] == "cfi":
            d = it[2]
            if d.origin and d.origin[0] == "patch":
                key = (d.origin[1], cur_patch[1] if cur_patch else None)
                if not patch_keep.get(key, False):
                    continue
            groups = [((gi,), [(d.name, d.args, d.sym)])]
            gi += 1
            try:
                st = _step(st, groups, retcol)
            except RC.Reject as r:
                return out, counts, f"{d.name} at {it[1]}: {r}"
            n = d.name
            counts["start"] += n == ".cfi_startproc"
            counts["end"] += n == ".cfi_endproc"
            counts["rem"] += n == ".cfi_remember_state"
            counts["res"] += n == ".cfi_restore_state"
        else:
            u = it[2]
            if u.kind != "data":
                out.setdefault(u.origin + ((cur_patch[1],) if (cur_patch and u.origin[0] == "patch") else ()),
                               (st is not None, _view(st)))
    return out, counts, None


def _view(st):
    if st is None:
        return None
    return {"cur": st["cur"], "stack": st["stack"], "pers": st["pers"], "lsda": st["lsda"], "ret": st["ret"]}


class _Machine:
    pass


def _step(st, groups, retcol):
    """apply one directive group to a state (reference interpreter, single step)"""
    (key, dirs), = groups
    name, args, sym = dirs[0]
    if st is None:
        res = RC.evaluate([(key, dirs)], retcol, "little", 8)
        return res[0][1]
    # continue from an existing state: replay through the reference by
    # prefixing a synthetic procedure is not possible, so the reference keeps
    # a resumable form: evaluate() on [startproc-equivalent] is emulated here
    return RC.resume(st, dirs, retcol)


def _k_endcfi_then_next_start(case, failure):
    """C08-block-end-cfi-migrates: CFI keyed at the end of block X (containing
    .cfi_endproc), an insertion at X's end and an insertion at offset 0 of the
    next code block Y."""
    for (g, i), ds in case.cfi.items():
        b = case.blocks[g]
        if i != len(b.units) or not any(d[0] == ".cfi_endproc" for d in ds):
            continue
        nxt = Lm._next_code_block(case, g)
        if nxt is None:
            continue
        at_end = any(e.b == g and e.op != "delete" and e.i + e.n == len(b.units) for e in case.edits)
        at_start = any(e.b == nxt and e.op != "delete" and e.i == 0 for e in case.edits)
        if at_end and at_start:
            return True
    return False


def _k_startproc_at_range_end(case, failure):
    """C08-startproc-at-replaced-range-end: .cfi_startproc keyed exactly at the
    end of a deleted/replaced range, plus an insertion at that position."""
    for ed in case.edits:
        if ed.n <= 0:
            continue
        inside = any(d[0] == ".cfi_startproc" for k in range(ed.i + 1, ed.i + ed.n + 1)
                     for d in case.cfi.get((ed.b, k), []))
        if inside and any(o is not ed and o.b == ed.b and o.op != "delete" and o.i == ed.i + ed.n for o in case.edits):
            return True
    return False


KNOWN = {"C02-trailing-patch-label-at-block-end": lambda case, failure: Lm.trailing_label_then_insert(case, cfi=True),
         "C08-block-end-cfi-migrates": _k_endcfi_then_next_start,
         "C08-startproc-at-replaced-range-end": _k_startproc_at_range_end}


def in_known_class(fid, spec, failure):
    pred = KNOWN.get(fid)
    return bool(pred and pred(Lm.Case(spec), failure))


def evaluate(spec):
    import gtirb

    out, r = _rw.start(spec)
    if r is None:
        return out
    case, exp, obs, m = r.case, r.exp, r.obs, r.built.module
    if not case.cfi:
        out.classes.append("no-cfi")
    # input states
    case0 = Lm.Case({**spec, "edits": []})
    exp0 = Lm.Expected(case0)
    deleted = any(u.deleted for b in case.blocks for u in b.units)
    # re-mark deletions (Expected(case0) shares no units with case)
    in_states, in_counts = {}, {"start": 0, "end": 0, "rem": 0, "res": 0}
    for stream in exp0.streams:
        s_, c_, err = _states_from_stream(stream)
        if err:
            out.excluded = "generator-produced-ill-formed-cfi"
            return out
        in_states.update(s_)
        for k in c_:
            in_counts[k] += c_[k]
    want_states, want_counts = {}, {"start": 0, "end": 0, "rem": 0, "res": 0}
    for stream in exp.streams:
        s_, c_, err = _states_from_stream(stream)
        want_states.update(s_)
        for k in c_:
            want_counts[k] += c_[k]
    # non-trivial: an edit within one unit of a directive position
    near = False
    for ed in case.edits:
        for i in range(ed.i - 1, ed.i + ed.n + 2):
            if (ed.b, i) in case.cfi:
                near = True
    out.nontrivial = near
    if deleted:
        out.classes.append("has-deletion")
    if any(any("cfi" in t for t in (e.patch or {}).get("toks", [])) for e in case.edits):
        out.classes.append("patch-has-cfi")
    out.classes.append(f"procedures={min(in_counts['start'], 4)}")
    # ---- observed ------------------------------------------------------------
    table = m.aux_data.get("cfiDirectives")
    entries = []
    if table is not None:
        for key, dirs in table.data.items():
            blk = key.element_id
            if not isinstance(blk, gtirb.CodeBlock) or blk.byte_interval is None or blk.module is not m:
                out.fail("C08.clean", "directive-on-dead-or-non-code-block", f"{key}")
                continue
            bp = obs.block_pos(blk)
            if not (0 <= key.displacement <= blk.size):
                out.fail("C08.clean", "directive-outside-block", f"{key.displacement} / {blk.size}")
            at_end = key.displacement == blk.size and blk.size > 0
            entries.append(((bp[0], bp[1] + key.displacement, 0 if at_end else 1, bp[1]), dirs))
    entries.sort(key=lambda t: t[0])
    got_counts = {"start": 0, "end": 0, "rem": 0, "res": 0}
    per_sec = {}
    for (si, pos, _o, _b), dirs in entries:
        per_sec.setdefault(si, []).append((pos, dirs))
    got_states = {}
    err = None
    for si, insns in enumerate(exp.insns):
        st = None
        groups = per_sec.get(si, [])
        gi = 0
        for e in insns:
            while gi < len(groups) and groups[gi][0] <= e.pos:
                pos, dirs = groups[gi]
                gi += 1
                for (n, a, s) in dirs:
                    sym = s.name if isinstance(s, gtirb.Symbol) else None
                    try:
                        st = _step(st, [((gi,), [(n, list(a), sym)])], 16)
                    except RC.Reject as rj:
                        err = f"section {si} offset {pos}: {n}: {rj}"
                        break
                    got_counts["start"] += n == ".cfi_startproc"
                    got_counts["end"] += n == ".cfi_endproc"
                    got_counts["rem"] += n == ".cfi_remember_state"
                    got_counts["res"] += n == ".cfi_restore_state"
                if err:
                    break
            if err:
                break
            if e.unit.kind != "data":
                key = e.unit.origin
                if key[0] == "patch":
                    key = key + (_host(case, exp, e),)
                got_states.setdefault(key, (st is not None, _view(st)))
        if err:
            break
        # directives after the last instruction
        while not err and gi < len(groups):
            pos, dirs = groups[gi]
            gi += 1
            for (n, a, s) in dirs:
                sym = s.name if isinstance(s, gtirb.Symbol) else None
                try:
                    st = _step(st, [((gi,), [(n, list(a), sym)])], 16)
                except RC.Reject as rj:
                    err = f"section {si} offset {pos}: {n}: {rj}"
                    break
                got_counts["start"] += n == ".cfi_startproc"
                got_counts["end"] += n == ".cfi_endproc"
                got_counts["rem"] += n == ".cfi_remember_state"
                got_counts["res"] += n == ".cfi_restore_state"
        if not err and st is not None:
            err = f"section {si}: procedure still open at the end of the section"
    sig = "with-deletion" if deleted else "no-deletion"
    if err:
        out.fail("C08.clean", "output-does-not-evaluate", err, sig)
        return out
    # library's own evaluator must agree that it is clean
    try:
        from gtirb_rewriting.dwarf.cfi_eval import evaluate_cfi_directives
        for sec in m.sections:
            list(evaluate_cfi_directives(m, [b for b in sec.code_blocks]))
    except Exception as e:
        out.fail("C08.clean", "library-evaluator-raises", repr(e)[:300], sig)
    # (b) inside a procedure iff it was
    for key, (inproc, state) in in_states.items():
        if key in got_states and got_states[key][0] != inproc:
            out.fail("C08.in-procedure", "original-instruction-changed-side",
                     f"{key}: was {'inside' if inproc else 'outside'}, now {'inside' if got_states[key][0] else 'outside'}", sig)
            break
    # (c) nothing deleted: identical state at every original instruction
    if not deleted:
        for key, (inproc, state) in in_states.items():
            if key in got_states and got_states[key][1] != state:
                out.fail("C08.state", "state-changed-without-deletion",
                         f"{key}: before {state} after {got_states[key][1]}")
                break
    # positions holding startproc/endproc: after a deletion such a directive may
    # have slid onto an insertion point, which makes "inside/outside" ambiguous
    struct_pos = set()
    ambiguous = set()
    for si, stream in enumerate(exp.streams):
        for it in stream:
            if it[0] == "cfi" and it[2].name in (".cfi_startproc", ".cfi_endproc"):
                struct_pos.add((si, it[1]))
    for si, stream in enumerate(exp.streams):
        cur = None
        first = {}
        for it in stream:
            if it[0] == "patchstart":
                cur = (it[1], it[2])
            elif it[0] == "insn" and it[2].origin[0] == "patch" and cur:
                first.setdefault(cur, it[1])
                if (si, first[cur]) in struct_pos:
                    ambiguous.add(it[2].origin + (cur[1],))
    # (d) inserted code
    for key, (inproc, state) in want_states.items():
        if key[0] != "patch" or key not in got_states:
            continue
        g_in, g_state = got_states[key]
        if g_in != inproc and deleted and key in ambiguous:
            continue  # a structural directive of a deleted range slid onto the insertion point
        if g_in and not inproc:
            # code inserted outside a procedure that ends up covered by one: the
            # property only speaks about code inserted inside (counted, not judged)
            out.classes.append("outside-insertion-became-covered")
            continue
        if g_in != inproc:
            out.fail("C08.patch-cfi", "inserted-code-wrong-side",
                     f"{key}: expected {'inside' if inproc else 'outside'} a procedure", sig)
            break
        if not deleted and g_state != state:
            out.fail("C08.patch-cfi", "inserted-code-state",
                     f"{key}: expected {state} got {g_state}", sig)
            break
    # (e) structural directives are never lost (except whole procedures)
    if not deleted:
        if got_counts != want_counts:
            out.fail("C08.structure", "directive-counts", f"got {got_counts} expected {want_counts}", sig)
    else:
        # procedures whose instructions all vanished may vanish too
        if got_counts["start"] != got_counts["end"]:
            out.fail("C08.structure", "unbalanced", f"{got_counts}", sig)
        if got_counts["start"] > want_counts["start"]:
            out.fail("C08.structure", "procedures-appeared", f"{got_counts} vs {want_counts}", sig)
        alive = _alive_procedures(exp)
        if got_counts["start"] < alive:
            out.fail("C08.structure", "procedure-lost", f"{got_counts['start']} startproc, {alive} procedures still have instructions", sig)
    return out


def _host(case, exp, e):
    """host block of a patch instruction (origin is ('patch', reg, tok))"""
    reg = e.unit.origin[1]
    hosts = [ed.b for ed in case.edits if ed.reg == reg]
    if len(hosts) == 1:
        return hosts[0]
    # scope edits: find by position
    for ed in case.edits:
        if ed.reg == reg:
            bs = exp.block_start.get(ed.b)
            if bs and bs[0] == e.sec and bs[1] <= e.pos:
                best = ed.b
    return best


def _alive_procedures(exp):
    """number of procedures of the edited listing that still contain an instruction"""
    n = 0
    for stream in exp.streams:
        inproc = False
        has = False
        keep = {}
        cur = None
        for it in stream:
            if it[0] == "patchstart":
                cur = (it[1], it[2])
                keep[cur] = inproc
            elif it[0] == "cfi":
                d = it[2]
                if d.origin[0] == "patch":
                    continue
                if d.name == ".cfi_startproc":
                    inproc, has = True, False
                elif d.name == ".cfi_endproc":
                    if inproc and has:
                        n += 1
                    inproc = False
            elif it[0] == "insn" and inproc and it[2].kind != "data" and it[2].origin[0] == "orig":
                has = True
    return n


render = _rw.render
