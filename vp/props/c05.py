"""C05 - output IR is closed, well-formed and serializable, even on failure."""

from hypothesis import strategies as st

from .. import isa as I
from .. import listing as Lm
from .. import observe as Ob
from ..core import Outcome, exc_kind
from . import c01

FUZZ = {"quick": 0, "thorough": 2000}   # libFuzzer -runs per shard (slow target)
ID = "C05"
LEVEL = "fault_enumeration"
TECHNIQUE = ("property-based testing (Hypothesis) with a whole-IR validity predicate (closure, block geometry, "
             "documented zero-sized blocks, protobuf round trip) and exhaustive fault injection: for every k the k-th "
             "patch callback raises")
RULE = ("cases as in C01 plus aux tables on generated nodes (SCCs, profile, encodings, types, elfDynamicInit/Fini, "
        "peSafeExceptionHandlers, elfSymbolInfo, peExportedSymbols, symbolForwarding, sectionProperties; on x86 also an "
        "alignment table whose entries hold in the input) and .balign directives inside patches. Each case is "
        "run once without faults and then once per k in 1..n (n = number of patch callbacks the fault-free run made) "
        "with a private exception raised by the k-th get_asm call, plus once with an AsmSyntaxError patch and once with "
        "an undefined-symbol patch. Every resulting IR goes through validate_ir. Non-trivial = (success) the case "
        "deletes a whole block or a patch adds a block; (fault) k > 1, i.e. something was already modified when the "
        "fault hit; evaluations counts cases (coverage.notes.fault_runs counts the additional faulted runs), distinct by spec hash.")
ASSUMPTIONS = [
    "byte intervals may remain split after a failed apply() (the property only asks for closed and serializable)",
    "zero-sized blocks are judged against the four documented reasons using the output IR's own neighbours",
    "protobuf round trip is compared through the UUID-free canonical dump (gtirb's own deep_eq ignores aux data)",
]


def calibrate():
    I.calibrate()


def strategy(tier):
    aux = st.fixed_dictionaries({"seed": st.integers(0, 20), "blocks": st.booleans(), "special": st.booleans(),
                                 "symbols": st.booleans(), "align": st.sampled_from([False, False, True])})
    return st.tuples(Lm.case_st(tier, pdata=True, ivs=True, palign=True), aux).map(lambda t: {**t[0], "aux": t[1]})


def budget(tier):
    return 9_000 if tier == "quick" else 120_000


class _Boom(Exception):
    pass


def in_known_class(fid, spec, failure):
    case = Lm.Case(spec)
    if fid == "C01-call-at-section-end":
        return Lm.call_at_section_end(case)
    return False


def _run(spec, fault=None):
    """Returns (case, built, error, n_callbacks)."""
    import gtirb_rewriting

    case = Lm.Case(spec)
    exp = Lm.Expected(case)
    if Lm.out_of_domain(case, exp):
        return case, None, None, 0
    built = Lm.build(case)
    calls = []
    ctx = gtirb_rewriting.RewritingContext(built.module, Lm.functions_of(built.module))

    class P(gtirb_rewriting.Patch):
        def __init__(self, text):
            super().__init__(gtirb_rewriting.Constraints())
            self.text = text

        def get_asm(self, c):
            calls.append(1)
            if fault is not None and fault[0] == "raise" and len(calls) == fault[1]:
                raise _Boom()
            if fault is not None and fault[0] == "syntax" and len(calls) == fault[1]:
                return "this is not assembly\n"
            if fault is not None and fault[0] == "undef" and len(calls) == fault[1]:
                return self.text + I.render(case.isa, case.tab["call" if "call" in case.tab else "nop"], "no_such_symbol_zz") + "\n"
            return self.text

    for ed in sorted(case.edits, key=lambda e: e.reg):
        blk = built.blocks[ed.b]
        off = case.byte_off(ed.b, ed.i)
        ln = case.byte_off(ed.b, ed.i + ed.n) - off
        if ed.op == "insert":
            ctx.insert_at(blk, off, P(case.patch_units(ed)[1]))
        elif ed.op == "replace":
            ctx.replace_at(blk, off, ln, P(case.patch_units(ed)[1]))
        else:
            ctx.delete_at(blk, off, ln, retarget_to_proxy=ed.proxy)
    built.cfg_before = built.ir.cfg
    # blocks with incoming control flow in the input (the documented reason
    # for keeping a zero-sized block is judged when the block is deleted; a
    # caller deleted later does not make the kept block a violation)
    import gtirb
    built.self_loops = {e.target for e in built.ir.cfg
                        if not (e.label and e.label.type == gtirb.Edge.Type.Fallthrough)}
    # ... and control flow into a block that is deleted as a whole is
    # redirected to the next block, which inherits the reason
    rev = {id(b): g for g, b in built.blocks.items()}
    for _name, idxs in case.sections:
        for k, g in enumerate(idxs):
            if built.blocks[g] in built.self_loops and g in exp.deleted_blocks and g not in exp.proxy_blocks \
                    and k + 1 < len(idxs) and case.blocks[idxs[k + 1]].code:
                built.self_loops.add(built.blocks[idxs[k + 1]])
    built.had_referent = {s: s.referent is not None for s in built.module.symbols}
    err = None
    try:
        ctx.apply()
    except Exception as e:
        err = e
    return case, built, err, len(calls)


def evaluate(spec):
    out = Outcome()
    case, built, err, n = _run(spec)
    if built is None:
        out.excluded = "patch-branch-to-noncode-position"
        return out
    exp = Lm.Expected(case)
    out.classes = c01.classes(case, exp)
    out.classes.append(f"callbacks={min(n, 6)}")
    out.nontrivial = bool(exp.deleted_blocks) or n > 0
    if err is not None:
        out.fail("C05.apply-raises", exc_kind(err), repr(err)[:300])
    else:
        # (puts byte intervals back into listing order when the closing
        # re-layout scrambled them: finding C01-layout-reorders-intervals)
        obs = Lm.Observed(built)
        # positions (in the edited listing) where an input block ends whose input successor is not code
        ends = set()
        for si, (_name, idxs) in enumerate(case.sections):
            for k, g in enumerate(idxs):
                if k + 1 < len(idxs) and case.blocks[idxs[k + 1]].code:
                    continue
                end = exp.block_start[idxs[k + 1]][1] if k + 1 < len(idxs) and idxs[k + 1] in exp.block_start else len(exp.sec_bytes[si])
                ends.add((si, end))

        def nocode_after(b):
            return b not in set(built.blocks.values()) and obs.block_pos(b) in ends

        input_next = {}
        for _name, idxs in case.sections:
            for k, g in enumerate(idxs):
                input_next[built.blocks[g]] = built.blocks[idxs[k + 1]] if k + 1 < len(idxs) else None
        for kind, detail in Ob.validate_ir(built.ir, original_blocks=set(built.blocks.values()), self_loop_blocks=built.self_loops,
                                           input_next=input_next, nocode_after=nocode_after):
            out.fail("C05.valid", kind, detail)
    # faults: every k
    out.extra_runs = []
    faults = [("raise", k) for k in range(1, n + 1)]
    if n:
        faults += [("syntax", 1 + n // 2), ("undef", n)]
    for fault in faults:
        case2, built2, err2, _ = _run(spec, fault)
        tag = f"{fault[0]}@{fault[1]}"
        out.extra_runs.append((tag, fault[1] > 1))
        if err2 is None:
            if fault[0] == "raise":
                out.fail("C05.fault", "exception-swallowed", tag)
            continue
        if fault[0] == "raise" and not isinstance(err2, _Boom):
            out.fail("C05.fault", "other-exception:" + exc_kind(err2), f"{tag}: {err2!r}"[:300])
        m = built2.module
        if built2.ir.cfg is not built2.cfg_before:
            out.fail("C05.fault", "ir.cfg-replaced", tag, fault[0])
        for s, had in built2.had_referent.items():
            if had and s.referent is None and s.module is m:
                out.fail("C05.fault", "symbol-stranded", f"{tag}: {s.name}", fault[0])
                break
        for kind, detail in Ob.validate_ir(built2.ir, after_fault=True):
            out.fail("C05.fault-valid", kind, f"{tag}: {detail}", fault[0])
    return out


def render(spec):
    d = c01.render(spec)
    if isinstance(d, dict):
        d["aux"] = spec.get("aux")
        d["faults"] = "k-th patch callback raises, for every k; plus syntax error and undefined symbol"
    return d
