"""C13 - assembler symbol discipline and incremental assembly."""

from hypothesis import strategies as st

from .. import isa as I
from .. import listing as Lm
from ..core import BadSpec, Outcome, exc_kind
from . import c12

FUZZ = {"quick": 0, "thorough": 3000}   # libFuzzer -runs per shard (slow target)
ID = "C13"
TECHNIQUE = ("property-based testing (Hypothesis): (i) one patch object with temporary and global-free labels inserted "
             "1-8 times in one rewrite, checked for name uniqueness, per-invocation suffixes and label capture; error "
             "cases for undefined / redefined names; (ii) metamorphic chunking: a generated token program assembled in "
             "2-4 chunks must give the same canonical result as its concatenation")
RULE = ("multi: a generated listing plus one patch (ordinary instructions, a temporary label, a conditional jump to that "
        "label, references to module symbols) registered at N=1..8 locations (insert_at at distinct blocks and/or an "
        "AllBlocksScope): N distinct suffixed symbols, each copy's jump leads to its own copy's label. errors: unknown "
        "names (ordinary or temporary-looking, with or without a suffix given to the assembler, referenced in one or two "
        "assemble() calls) raise UndefSymbolError unless allowed, in which case exactly one proxy-backed symbol exists, every "
        "expression refers to that object and no two symbols share a name; defining a name that exists in the module raises "
        "MultipleDefinitionsError, and so does defining the same global / temporary label twice (with and without the "
        "caller's suffix, in one text - LLVM's own diagnostic accepted - or in two assemble() calls). chunks: C12-style token programs cut at 1-3 points (after terminators, inside data "
        "runs, between a label and its instruction) with no reference to a label of a later chunk; "
        "canonical(Result(chunks)) == canonical(Result(concatenation)), where the concatenation re-enters .text at each "
        "cut because every assemble() call starts in the text section. Non-trivial = (multi) N >= 2, (chunks) a cut "
        "directly after a terminator or a label; distinct by spec hash.")
ASSUMPTIONS = [
    "every assemble() call starts in the text section (mcasm behaviour the rewriter relies on for epilogues after patches "
    "that end in another section); the concatenation therefore contains a .text directive at each cut",
]


def calibrate():
    I.calibrate()


def strategy(tier):
    base = Lm.case_st(tier, max_edits=1, min_edits=0)
    multi = st.tuples(base, st.lists(st.integers(0, 30), min_size=1, max_size=8), st.booleans(),
                      st.lists(st.sampled_from(["nop", "xor", "push", "mark"]), min_size=1, max_size=3),
                      st.sampled_from(["back", "fwd"])).map(
        lambda t: {"k": "multi", **t[0], "edits": [], "where": t[1], "scope": t[2], "body": t[3], "dir": t[4]})
    chunks = st.tuples(c12.strategy(tier), st.lists(st.integers(1, 24), min_size=1, max_size=3)).map(
        lambda t: {"k": "chunks", **t[0], "cuts": t[1]})
    errors = st.fixed_dictionaries({"k": st.just("errors"), "pair": st.integers(0, len(I.PAIRS) - 1),
                                    "what": st.sampled_from(["undef", "undef-allowed", "redef", "redef-twice", "redef-twice"]),
                                    "temp": st.booleans(), "suffix": st.booleans(), "two_calls": st.booleans(),
                                    "dataref": st.booleans()})
    return st.one_of(multi, multi, chunks, chunks, errors)


def budget(tier):
    return 24_000 if tier == "quick" else 400_000


def evaluate(spec):
    try:
        k = spec["k"]
    except (KeyError, TypeError):
        raise BadSpec("kind")
    if k == "multi":
        return _multi(spec)
    if k == "chunks":
        return _chunks(spec)
    if k == "errors":
        return _errors(spec)
    raise BadSpec("kind")


# ---------------------------------------------------------------------------
def _multi(spec):
    import re

    import gtirb
    import gtirb_rewriting as gr

    out = Outcome()
    case = Lm.Case(spec)
    isa = case.isa
    if isa == "mips32" or "je" not in case.tab:
        # no conditional jump template: use a label + data reference instead
        pass
    built = Lm.build(case)
    m = built.module
    code = [b for b in case.blocks if b.code]
    if not code:
        out.excluded = "no-code-block"
        return out
    tab = case.tab
    has_jcc = "je" in tab
    seen_ctx = []

    def asm(ctx):
        lab = ctx.temporary_label("again")
        lines = []
        body = [I.render(isa, tab[n], None, 7) for n in spec["body"]]
        if has_jcc and spec["dir"] == "back":
            lines = [f"{lab}:"] + body + [I.render(isa, tab["je"], lab)]
        elif has_jcc:
            lines = [I.render(isa, tab["je"], lab)] + body + [f"{lab}:", I.render(isa, tab["nop"])]
        else:
            lines = [f"{lab}:"] + body
        seen_ctx.append(ctx)
        return "\n".join(lines) + "\n"

    patch = gr.Patch.from_function(asm, gr.Constraints())
    ctx = gr.RewritingContext(m, Lm.functions_of(m))
    targets = []
    for w in spec["where"]:
        g = code[w % len(code)].gidx
        if g not in targets:
            targets.append(g)
    use_scope = bool(spec.get("scope"))
    n_expected = 0
    if use_scope:
        ctx.register_insert(gr.AllBlocksScope(gr.BlockPosition.ENTRY), patch)
        n_expected += len(code)
    for g in targets:
        ctx.insert_at(built.blocks[g], 0, patch)
        n_expected += 1
    before_names = {s.name for s in m.symbols}
    try:
        ctx.apply()
    except Exception as e:
        out.fail("C13.multi", "apply-raises:" + exc_kind(e), repr(e)[:300])
        return out
    out.nontrivial = n_expected >= 2
    out.classes = ["kind=multi", f"isa={isa}/{case.fmt}", f"copies={min(n_expected, 8)}", "scope" if use_scope else "insert_at"]
    names = [s.name for s in m.symbols]
    if len(names) != len(set(names)):
        dup = sorted({n for n in names if names.count(n) > 1})
        out.fail("C13.multi", "duplicate-symbol-names", f"{dup}")
    base = seen_ctx[0].temporary_label("again") if seen_ctx else None
    if base is None:
        return out
    copies = [s for s in m.symbols if re.fullmatch(re.escape(base) + r"_\d+", s.name)]
    plain = [s for s in m.symbols if s.name == base]
    if plain:
        out.fail("C13.multi", "temporary-label-without-suffix", base)
    if len(copies) != n_expected:
        out.fail("C13.multi", "wrong-number-of-label-copies", f"{len(copies)} symbols for {n_expected} insertions")
        return out
    # each copy's jump leads to its own label
    if has_jcc:
        body_len = sum(len(I.encode(isa, tab[n], 7)) for n in spec["body"])
        je_len = len(tab["je"].bytes)
        for s in copies:
            blk = s.referent
            if not isinstance(blk, gtirb.CodeBlock) or blk.byte_interval is None:
                out.fail("C13.multi", "label-copy-not-on-a-live-code-block", s.name)
                continue
            lab_addr = blk.address + (blk.size if s.at_end else 0)
            srcs = [e.source for e in blk.incoming_edges
                    if e.label and e.label.type == gtirb.Edge.Type.Branch and e.label.conditional]
            if spec["dir"] == "back":
                want_src_end = lab_addr + body_len + je_len
            else:
                want_src_end = lab_addr - body_len
            ok = [x for x in srcs if isinstance(x, gtirb.CodeBlock) and x.address + x.size == want_src_end]
            if len(ok) != 1:
                out.fail("C13.multi", "copy-captured-another-copys-label",
                         f"{s.name} at {hex(lab_addr)}: conditional branches from blocks ending at "
                         f"{[hex(x.address + x.size) for x in srcs if isinstance(x, gtirb.CodeBlock)]}, expected {hex(want_src_end)}",
                         spec["dir"])
    return out


# ---------------------------------------------------------------------------
def _errors(spec):
    import gtirb

    from gtirb_rewriting.assembler import Assembler, MultipleDefinitionsError, UndefSymbolError

    out = Outcome()
    isa, fmt = I.PAIRS[spec["pair"] % len(I.PAIRS)]
    what = spec["what"]
    out.classes = ["kind=errors", what]
    out.nontrivial = True
    ir = gtirb.IR()
    m = gtirb.Module(name="m", isa=I.gtirb_isa(isa), file_format=I.gtirb_fmt(fmt), ir=ir)
    sec = gtirb.Section(name=".text", module=m)
    bi = gtirb.ByteInterval(contents=I.NOP[isa] * 2, address=0x1000, section=sec)
    cb = gtirb.CodeBlock(offset=0, size=len(I.NOP[isa]), byte_interval=bi)
    existing = gtirb.Symbol(name="existing", payload=cb, module=m)
    tab = I.table(isa)
    ref = tab["call"] if "call" in tab else None
    nop = I.render(isa, tab["nop"])
    if what in ("undef", "undef-allowed"):
        # the unknown name may look like a temporary label of the target, the assembler may have been given a
        # suffix for temporary labels, and the references may arrive in one or in two assemble() calls
        uname = (I.temp_prefix(isa, fmt) + "nosuch") if spec.get("temp") else "nosuch"
        usuffix = "_9" if spec.get("suffix") else None
        # (referenced by a call - the proxy then has a CFG edge - or only by a data word)
        line = (I.render(isa, ref, uname) if ref and not spec.get("dataref") else f".long {uname}") + "\n"
        out.classes += [f"temp={bool(spec.get('temp'))}", f"suffix={bool(usuffix)}", f"two_calls={bool(spec.get('two_calls'))}",
                        f"dataref={bool(spec.get('dataref'))}"]
        a = Assembler(m, allow_undef_symbols=(what == "undef-allowed"), temp_symbol_suffix=usuffix)
        text = line + line
        try:
            if spec.get("two_calls"):
                a.assemble(line)
                a.assemble(line)
            else:
                a.assemble(text)
            res = a.finalize()
        except UndefSymbolError:
            if what == "undef-allowed":
                out.fail("C13.errors", "undefined-rejected-although-allowed", text)
            return out
        except Exception as e:
            out.fail("C13.errors", "wrong-exception:" + exc_kind(e), repr(e)[:200], what)
            return out
        if what == "undef":
            out.fail("C13.errors", "undefined-symbol-accepted", text)
            return out
        cands = [s for s in res.symbols if s.name == uname or (usuffix and s.name == uname + usuffix)]
        if len(cands) != 1 or not isinstance(cands[0].referent, gtirb.ProxyBlock) or cands[0].referent not in res.proxies:
            out.fail("C13.errors", "not-exactly-one-proxy-symbol", f"{uname}: {[s.name for s in res.symbols]}")
        else:
            for sname, sect in res.sections.items():
                for off, e in sect.symbolic_expressions.items():
                    if e.symbol is not cands[0]:
                        out.fail("C13.errors", "expression-refers-to-another-symbol-object", f"{sname}+{off}: {e.symbol.name}")
            if len({id(p) for p in res.proxies}) != 1:
                out.fail("C13.errors", "more-than-one-proxy-for-one-undefined-name", f"{len(res.proxies)} proxies")
        if len({s.name for s in res.symbols}) != len(list(res.symbols)):
            out.fail("C13.errors", "two-symbols-with-one-name", f"{sorted(s.name for s in res.symbols)}")
        if any(s.name.startswith(uname) for s in m.symbols):
            out.fail("C13.errors", "assembler-modified-the-module", "")
        return out
    # a name defined twice: global or temporary label, with or without the
    # caller's suffix, both definitions in one text or in two assemble() calls
    temp = bool(spec.get("temp"))
    suffix = "_9" if spec.get("suffix") else None
    two_calls = bool(spec.get("two_calls"))
    name = (I.temp_prefix(isa, fmt) + "again") if temp else "newname"
    out.classes += [f"temp={temp}", f"suffix={bool(suffix)}", f"two_calls={two_calls}"]
    if what == "redef":
        texts = [f"existing:\n{nop}\n"]
    elif two_calls:
        texts = [f"{name}:\n{nop}\n", f"{nop}\n{name}:\n{nop}\n"]
    else:
        texts = [f"{name}:\n{nop}\n{name}:\n{nop}\n"]
    a = Assembler(m, temp_symbol_suffix=suffix) if suffix else Assembler(m)
    try:
        for t in texts:
            a.assemble(t)
        res = a.finalize()
        out.fail("C13.errors", "redefinition-accepted", repr(texts) + f" -> symbols {sorted(s_.name for s_ in res.symbols)}", what)
    except MultipleDefinitionsError:
        pass
    except Exception as e:
        # LLVM itself diagnoses a label defined twice in one text
        if what == "redef-twice" and not two_calls and type(e).__name__ == "AsmSyntaxError":
            return out
        out.fail("C13.errors", "wrong-exception:" + exc_kind(e), repr(e)[:200], what)
    return out


# ---------------------------------------------------------------------------
def _canon_result(res, modsyms):
    import gtirb

    def node(n):
        if isinstance(n, gtirb.ProxyBlock):
            names = sorted(s.name for s in res.symbols if s.referent is n)
            return ["proxy", names] if n in res.proxies else ["foreign-proxy"]
        for sname, s in res.sections.items():
            if n in s.blocks:
                return [sname, n.offset, n.size, type(n).__name__]
        for nm, s in modsyms.items():
            if s.referent is n:
                return ["module", nm]
        return ["unknown"]

    out = {"sections": {}, "symbols": [], "cfg": []}
    for sname, s in sorted(res.sections.items()):
        out["sections"][sname] = {
            "data": bytes(s.data).hex(),
            "flags": sorted(f.name for f in s.flags),
            "blocks": [[type(b).__name__, b.offset, b.size] for b in s.blocks],
            "symexprs": sorted([off, type(e).__name__, e.symbol.name, e.offset, sorted(a.name for a in e.attributes)]
                               for off, e in s.symbolic_expressions.items()),
            "sizes": sorted(s.symbolic_expression_sizes.items()),
            "alignment": sorted([b.offset, a] for b, a in s.alignment.items()),
            "types": sorted([b.offset, str(t)] for b, t in s.block_types.items()),
        }
    for s in res.symbols:
        out["symbols"].append([s.name, node(s.referent) if s.referent is not None else None, bool(s.at_end)])
    out["symbols"].sort(key=repr)
    for e in res.cfg:
        l = e.label
        out["cfg"].append([node(e.source), node(e.target), None if l is None else [l.type.name, bool(l.conditional), bool(l.direct)]])
    out["cfg"].sort(key=repr)
    out["proxies"] = len(res.proxies)
    table = res.create_cfi_directives()
    out["cfi"] = []
    for sname, s in sorted(res.sections.items()):
        at = {}
        for b in s.blocks:
            for disp, ds in sorted(table.get(b, {}).items()):
                at.setdefault(b.offset + disp, []).extend(
                    [n_, list(a_), getattr(s_, "name", None)] for n_, a_, s_ in ds)
        out["cfi"].append([sname, sorted(at.items())])
    return out


def _chunks(spec):
    import gtirb
    import mcasm

    from gtirb_rewriting.assembler import Assembler

    from .. import observe as Ob

    out = Outcome()
    isa, fmt = spec["isa"], spec["fmt"]
    if (isa, fmt) not in I.TRIPLES:
        raise BadSpec("pair")
    toks = []
    for t in spec["toks"]:
        toks.extend(t["seq"] if "seq" in t else [t])
    cuts = sorted({c % (len(toks)) for c in spec["cuts"] if len(toks) > 1 and c % len(toks)})
    if not cuts:
        out.excluded = "no-cut-possible"
        return out
    pieces = []
    prev = 0
    for c in cuts + [len(toks)]:
        pieces.append(toks[prev:c])
        prev = c
    # every assemble() call is a parse of its own, so a CFI procedure cannot
    # stay open across a cut: close it (a no-op when none is open)
    for p in pieces[:-1]:
        p += [{"sec": "text"}, {"cfi": "end", "a": 0, "b": 0, "sym": {"k": "mod", "i": 0}}]
    # no piece may refer to a label defined in a later piece: references to own
    # labels are restricted (by the C12 resolver) to labels of the whole program,
    # so make every own reference point to a module symbol unless its label is
    # defined in an earlier-or-same piece.  Simplest sound construction: own
    # references become module references in all pieces but the last label-defining one.
    defined_upto = []
    seen = set()
    for p in pieces:
        for t in p:
            if "lab" in t:
                seen.add((t["lab"], bool(t.get("temp"))))
        defined_upto.append(set(seen))
    fixed = []
    total_labels = defined_upto[-1]
    for k, p in enumerate(pieces):
        q = []
        for t in p:
            t = dict(t)
            for key in ("sym", "sym2"):
                if key in t and isinstance(t[key], dict) and t[key].get("k") == "own" and defined_upto[k] != total_labels:
                    t[key] = {"k": "mod", "i": t[key]["i"]}
            q.append(t)
        fixed.append(q)
    # also the full program must use the same (fixed) tokens
    full_toks = []
    for k, p in enumerate(fixed):
        if k:
            full_toks.append({"sec": "text"})
        full_toks += p
    try:
        full_text, sections, labels, undef = c12._program({**spec, "toks": full_toks})
    except (KeyError, TypeError, IndexError) as e:
        raise BadSpec(repr(e))
    # piece texts: render each piece with knowledge of all labels (names only)
    texts = []
    # derive piece texts by splitting the full text at the inserted ".text" cut markers
    lines = full_text.split("\n")
    # positions of cut markers = index of k-th injected ".text" line; recompute by rendering prefix programs
    acc = []
    cur = []
    # count lines per token by rendering incrementally (labels defined twice are skipped consistently)
    rendered_prefix = 0
    for k, p in enumerate(fixed):
        upto = []
        for j in range(k + 1):
            if j:
                upto.append({"sec": "text"})
            upto += fixed[j]
        t_upto, _, _, _ = c12._program({**spec, "toks": upto})
        n_lines = len(t_upto.split("\n")) - 1
        piece_lines = lines[rendered_prefix:n_lines]
        if k and piece_lines and piece_lines[0].strip() == ".text":
            piece_lines = piece_lines[1:]
        texts.append("\n".join(piece_lines) + "\n")
        rendered_prefix = n_lines
    syntax = mcasm.X86Syntax.INTEL if spec.get("syntax") == "intel" else mcasm.X86Syntax.ATT

    def target():
        ir = gtirb.IR()
        m = gtirb.Module(name="m", isa=I.gtirb_isa(isa), file_format=I.gtirb_fmt(fmt), ir=ir)
        m.byte_order = gtirb.Module.ByteOrder.Big if isa == "mips32" else gtirb.Module.ByteOrder.Little
        sec = gtirb.Section(name=".text", module=m)
        bi = gtirb.ByteInterval(contents=I.NOP[isa] * 4, address=0x1000, section=sec)
        cb = gtirb.CodeBlock(offset=0, size=len(I.NOP[isa]) * 2, byte_interval=bi)
        db = gtirb.DataBlock(offset=len(I.NOP[isa]) * 2, size=len(I.NOP[isa]) * 2, byte_interval=bi)
        ms = {"modfn": gtirb.Symbol(name="modfn", payload=cb, module=m),
              "moddata": gtirb.Symbol(name="moddata", payload=db, module=m),
              "modext": gtirb.Symbol(name="modext", payload=gtirb.ProxyBlock(module=m), module=m)}
        return m, ms

    results = []
    for mode in ("whole", "chunks"):
        m, ms = target()
        a = Assembler(m, temp_symbol_suffix="_3", trivially_unreachable=bool(spec.get("unreach")), allow_undef_symbols=True)
        try:
            if mode == "whole":
                a.assemble(full_text, syntax)
            else:
                for t in texts:
                    a.assemble(t, syntax)
            fin = a.finalize()
            names = [s_.name for s_ in fin.symbols]
            if len(set(names)) != len(names):
                out.fail("C13.unique", "two-symbols-with-one-name", f"{mode}: {sorted(n for n in names if names.count(n) > 1)[:4]}")
            results.append(("ok", _canon_result(fin, ms)))
        except Exception as e:
            results.append(("exc", exc_kind(e) + ":" + repr(e)[:160]))
    cut_after = []
    for c in cuts:
        t = toks[c - 1]
        if "lab" in t:
            cut_after.append("label")
        elif "t" in t and I.table(isa)[t["t"]].kind != "ord":
            cut_after.append("terminator")
        elif "d" in t:
            cut_after.append("data")
        else:
            cut_after.append("other")
    out.nontrivial = any(x in ("label", "terminator") for x in cut_after)
    out.classes = ["kind=chunks", f"isa={isa}/{fmt}", f"pieces={len(pieces)}"] + sorted({"cut-after:" + x for x in cut_after})
    (sa, ra), (sb, rb) = results
    if sa != sb:
        out.fail("C13.chunks", "one-raises", f"whole: {sa} {ra if sa == 'exc' else ''} / chunks: {sb} {rb if sb == 'exc' else ''} for {texts!r}"[:600])
    elif sa == "ok" and ra != rb:
        d = Ob.first_diff(ra, rb)
        area = (d or "/?").split("/")[1] if d else ""
        out.fail("C13.chunks", "results-differ", f"{d} for chunks {texts!r}"[:700], area.split("[")[0])
    return out


def render(spec):
    if spec.get("k") == "multi":
        try:
            d = Lm.describe(Lm.Case(spec))
            d.pop("edits", None)
            d.update({"where": spec["where"], "scope": spec["scope"], "body": spec["body"], "dir": spec["dir"]})
            return d
        except Exception:
            pass
    return spec
