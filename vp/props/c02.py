"""C02 - symbols keep designating the same place in the edited listing."""

from .. import isa as I
from .. import listing as Lm
from . import _rw

ID = "C02"
TECHNIQUE = ("property-based testing (Hypothesis) of generated modules/edit sets against the listing reference model: "
             "every symbol's resolved position is compared with the position of its label in the list-edited listing")
RULE = ("cases as in C01 with 0-3 start labels and 0-2 end (at_end) labels per block, labels on data blocks, "
        "function-name labels, and patches defining temporary and global labels; after apply() every symbol must "
        "resolve (referent offset, plus size if at_end) to its label's position in the edited listing, labels of a block "
        "deleted with retarget_to_proxy must share one ProxyBlock of module.proxies, and every referent must be live. "
        "Non-trivial = at least one label moved and the case has an end label or a whole-block deletion of a labelled "
        "block; distinct by spec hash.")
ASSUMPTIONS = [
    "only resolved positions are compared, not whether a boundary label is a start label of Y or an end label of X",
    "cases whose bytes already disagree or where apply() raises are C01's to report and are skipped here (counted)",
]


def calibrate():
    I.calibrate()


def strategy(tier):
    return Lm.case_st(tier, pdata=True, ivs=True)


def budget(tier):
    return 30_000 if tier == "quick" else 400_000


def in_known_class(fid, spec, failure):
    if fid == "C02-label-follows-proxy-deleted-neighbour":
        return Lm.label_on_proxy_deleted_neighbour(Lm.Case(spec))
    if fid == "C02-trailing-patch-label-at-block-end":
        case = Lm.Case(spec)
        if failure.get("kind") == "unexpected-proxy":
            # the label that slipped behind the later patch now shares the position of a block deleted with
            # retarget_to_proxy and follows it onto the proxy (the two recorded findings combined)
            return Lm.trailing_label_then_insert(case) and bool(Lm.Expected(case).proxy_blocks)
        return Lm.trailing_label_then_insert(case)
    return False


def evaluate(spec):
    import gtirb

    out, r = _rw.start(spec)
    if r is None:
        return out
    case, exp, obs, m = r.case, r.exp, r.obs, r.built.module
    labelled_deleted = any(case.blocks[g].labels or case.blocks[g].end_labels for g in exp.deleted_blocks)
    has_end = any(b.end_labels for b in case.blocks)
    out.nontrivial = exp.moved_labels() > 0 and (has_end or labelled_deleted)
    if has_end:
        out.classes.append("has-end-label")
    if labelled_deleted:
        out.classes.append("labelled-block-deleted")
    byname = {}
    for s in m.symbols:
        if s.name in byname:
            out.fail("C02.unique", "duplicate-symbol-name", s.name)
        byname[s.name] = s
    proxies_of = {}
    for name, want in sorted(exp.labels.items()):
        sym = r.built.symbols[name]
        if sym.module is not m:
            out.fail("C02.live", "symbol-left-module", name)
            continue
        got = obs.symbol_pos(sym)
        binding = case.label_block[name][1]
        if want[0] == "proxy":
            if got[0] != "proxy":
                out.fail("C02.proxy", "not-proxy", f"{name}: expected a proxy referent, got {got[:1]}", binding)
            else:
                if got[1] not in m.proxies:
                    out.fail("C02.proxy", "proxy-not-in-module", name, binding)
                proxies_of.setdefault(want[1], set()).add(id(got[1]))
            continue
        if got[0] in ("none", "dead"):
            out.fail("C02.live", f"referent-{got[0]}", f"{name} refers to {got[0]} block", binding)
        elif got[0] == "proxy":
            out.fail("C02.position", "unexpected-proxy", f"{name}: expected {want}, got a proxy", binding)
        elif got[1:] != want[1:]:
            out.fail("C02.position", "moved",
                     f"{name} ({binding} label): expected section {want[1]} offset {want[2]}, "
                     f"got section {got[1]} offset {got[2]}", binding)
    for g, ids in proxies_of.items():
        if len(ids) != 1:
            out.fail("C02.proxy", "labels-of-one-block-on-different-proxies", f"block {g}")
    for base, (si, pos, temp) in sorted(exp.patch_labels.items()):
        hits = _rw.patch_symbol(byname, base)
        if len(hits) != 1:
            out.fail("C02.patch-label", "missing-or-duplicated", f"{base}: {len(hits)} symbols")
            continue
        got = obs.symbol_pos(hits[0])
        if got[0] == "proxy":
            out.fail("C02.patch-label", "unexpected-proxy", f"{base}: expected section {si} offset {pos}, got a proxy")
        elif got[0] != "pos" or got[1:] != (si, pos):
            out.fail("C02.patch-label", "position", f"{base}: expected section {si} offset {pos}, got {got}")
    # symbols that label nothing (absolute value / no payload) are left alone
    for name, (sym, val) in sorted(getattr(r.built, "value_symbols", {}).items()):
        if sym.module is not m:
            out.fail("C02.live", "value-symbol-left-module", name)
        elif sym.value != val or sym.referent is not None:
            out.fail("C02.position", "value-symbol-changed", f"{name}: value {sym.value!r} referent {sym.referent!r}, expected value {val!r}")
    # nothing refers to a dead block
    for s in m.symbols:
        ref = s.referent
        if isinstance(ref, gtirb.ByteBlock):
            if ref.byte_interval is None or ref.module is not m:
                out.fail("C02.live", "referent-dead", f"{s.name}")
        elif isinstance(ref, gtirb.ProxyBlock):
            if ref not in m.proxies:
                out.fail("C02.live", "proxy-not-in-module", f"{s.name}")
        elif ref is None and s.name in exp.labels:
            out.fail("C02.live", "referent-none", s.name)
    return out


render = _rw.render
