"""C04 - symbolic expressions and offset-keyed aux data travel with bytes."""

from .. import isa as I
from .. import listing as Lm
from . import _rw

ID = "C04"
TECHNIQUE = ("property-based testing (Hypothesis) against the listing reference model: symbolic expressions and "
             "Offset-keyed aux tables are re-keyed to section positions and compared with the annotation positions of "
             "the list-edited listing")
RULE = ("cases as in C01 where instructions and data words carry symbolic operands (with addends) and blocks carry "
        "comments / padding entries keyed by block or by byte interval; patches carry symbolic operands naming module "
        "symbols, own labels and externs. After apply(): symbolic_expressions, symbolicExpressionSizes, comments and "
        "padding, re-keyed to (section, offset), must equal the annotations of the edited listing (survivors moved with "
        "their byte, annotations of removed bytes gone, patch-created ones at patch position + inner offset, symbol "
        "identity preserved, no key on a dead node or outside its block/interval). Non-trivial = some annotation sits "
        "on a unit adjacent to an edit boundary; distinct by spec hash.")
ASSUMPTIONS = [
    "only positions are compared, not whether an entry ends up keyed by block or by interval",
    "sizes of patch-created expressions: exact on x86 (1/4 bytes); present and within 1..8 on ARM64",
    "attributes of patch-created expressions are compared with a table pinned from the documented/tested assembler "
    "behaviour (x86 non-PIE: none; ARM64 :lo12: -> LO12)",
    "cfiDirectives are judged by C08",
]


def calibrate():
    I.calibrate()


def strategy(tier):
    return Lm.case_st(tier, pdata=True, ivs=True)


def budget(tier):
    return 30_000 if tier == "quick" else 400_000


def _expected(case, exp):
    syms, sizes, notes = {}, {}, {"comments": {}, "padding": {}}
    for si, insns in enumerate(exp.insns):
        for e in insns:
            u = e.unit
            if u.sym is not None:
                p = (si, e.pos + u.field[0])
                syms[p] = (u.sym, u.addend, u.origin[0], u)
                sizes[p] = u.field[1]
            for (table, _key), entries in u.notes.items():
                for inner, val in entries.items():
                    notes[table][(si, e.pos + inner)] = val
    return syms, sizes, notes


def _near_edit(case):
    """units adjacent to an edit boundary"""
    near = set()
    for ed in case.edits:
        for i in (ed.i - 1, ed.i, ed.i + ed.n - 1, ed.i + ed.n):
            near.add((ed.b, i))
    for b in case.blocks:
        for k, u in enumerate(b.units):
            if (b.gidx, k) in near and (u.sym is not None or u.notes):
                return True
    return False


def evaluate(spec):
    import gtirb

    out, r = _rw.start(spec)
    if r is None:
        return out
    case, exp, obs, m = r.case, r.exp, r.obs, r.built.module
    out.nontrivial = _near_edit(case)
    wsyms, wsizes, wnotes = _expected(case, exp)
    byname = {}
    for s in m.symbols:
        if s.name in byname:
            out.fail("C04.symbols", "duplicate-symbol-name", s.name)
        byname[s.name] = s
    # symbolic expressions
    got = {}
    for bi, base in obs.base.items():
        for off, expr in bi.symbolic_expressions.items():
            if not (0 <= off < bi.size):
                out.fail("C04.bounds", "symexpr-outside-interval", f"offset {off} size {bi.size}")
            got[(obs.sec_of[bi], base + off)] = expr
    for p in sorted(set(got) | set(wsyms)):
        if p not in wsyms:
            if p[0] < len(case.sections):
                out.fail("C04.symexpr", "unexpected", f"at {p}: {got[p]}")
            continue
        name, addend, origin, u = wsyms[p]
        if p not in got:
            out.fail("C04.symexpr", "missing", f"{name}+{addend} expected at {p}", origin)
            continue
        e = got[p]
        if not isinstance(e, gtirb.SymAddrConst):
            out.fail("C04.symexpr", "wrong-type", f"at {p}: {e}", origin)
            continue
        if name in r.built.symbols:
            want_sym = r.built.symbols[name]
        else:
            hits = _rw.patch_symbol(byname, name)
            want_sym = hits[0] if len(hits) == 1 else None
        if e.symbol is not want_sym:
            out.fail("C04.symexpr", "wrong-symbol",
                     f"at {p}: refers to {e.symbol.name!r} (same object: False), expected {name!r}", origin)
        elif e.symbol.module is not m:
            out.fail("C04.symexpr", "symbol-not-in-module", f"at {p}: {name}", origin)
        if e.offset != addend:
            out.fail("C04.symexpr", "addend", f"at {p}: {e.offset} expected {addend}", origin)
        want_attrs = _attrs(case, u) if origin == "patch" else set()
        if want_attrs is not None and set(e.attributes) != want_attrs:
            out.fail("C04.symexpr", "attributes", f"at {p} ({name}): {set(e.attributes)} expected {want_attrs}", origin)
    # offset-keyed aux tables
    for tname, want in (("symbolicExpressionSizes", wsizes), ("comments", wnotes["comments"]),
                        ("padding", wnotes["padding"])):
        table = m.aux_data.get(tname)
        data = dict(table.data.items()) if table is not None else {}
        gotp = {}
        for key, val in data.items():
            el, disp = key.element_id, key.displacement
            if isinstance(el, gtirb.ByteBlock):
                bp = obs.block_pos(el)
                if bp is None or el.module is not m:
                    out.fail("C04.bounds", "key-on-dead-block", f"{tname}: {key}")
                    continue
                if not (0 <= disp <= el.size):
                    out.fail("C04.bounds", "key-outside-block", f"{tname}: displacement {disp}, block size {el.size}")
                pos = (bp[0], bp[1] + disp)
            elif isinstance(el, gtirb.ByteInterval):
                if el not in obs.base:
                    out.fail("C04.bounds", "key-on-dead-interval", f"{tname}: {key}")
                    continue
                if not (0 <= disp <= el.size):
                    out.fail("C04.bounds", "key-outside-interval", f"{tname}: displacement {disp}, size {el.size}")
                pos = (obs.sec_of[el], obs.base[el] + disp)
            else:
                out.fail("C04.bounds", "key-on-non-node", f"{tname}: {key}")
                continue
            if pos in gotp and gotp[pos] != val:
                out.fail("C04.aux", "two-entries-one-position", f"{tname} at {pos}")
            gotp[pos] = val
        for p in sorted(set(gotp) | set(want)):
            if p[0] >= len(case.sections):
                continue
            if p not in want:
                out.fail("C04.aux", "unexpected", f"{tname} at {p}: {gotp[p]!r}", tname)
            elif p not in gotp:
                out.fail("C04.aux", "missing", f"{tname} at {p}: expected {want[p]!r}", tname)
            elif gotp[p] != want[p]:
                if tname == "symbolicExpressionSizes" and case.isa == "arm64" and wsyms[p][2] == "patch" and 1 <= gotp[p] <= 8:
                    continue
                out.fail("C04.aux", "value", f"{tname} at {p}: {gotp[p]!r} expected {want[p]!r}", tname)
    return out


def _attrs(case, u):
    """Attributes the assembler is documented/tested to attach (pinned)."""
    import gtirb

    A = gtirb.SymbolicExpression.Attribute
    if case.isa == "arm64":
        if u.text and ":lo12:" in u.text:
            return {A.LO12}
        return set()
    return set()


render = _rw.render
