"""
Per-ISA instruction template tables: text <-> bytes <-> kind.

The expected bytes of everything a generated listing or patch contains come
from these tables, never from gtirb_rewriting's assembler.  `calibrate()`
assembles every template once through mcasm (the third-party LLVM binding)
and decodes it with capstone; a mismatch is a harness error.
"""

from collections import namedtuple

from .core import HarnessError

# kind: ord | jmp | jcc | call | ret | ijmp | icall
# symfield: (byte offset, byte size) of the symbolic operand or None
# text: AT&T / native assembly with optional {sym} and {imm} placeholders
T = namedtuple("T", "name text bytes kind symfield patch imm")

FALLS = {"ord", "jcc", "call", "icall"}
TRANSFER = {"jmp", "jcc", "call", "ret", "ijmp", "icall"}


def _t(name, text, hexbytes, kind="ord", symfield=None, patch=True, imm=None):
    return T(name, text, bytes.fromhex(hexbytes), kind, symfield, patch, imm)


X64 = [
    _t("nop", "nop", "90"),
    _t("nop2", "xchg %ax,%ax", "6690"),
    _t("nop3", "nopl (%rax)", "0f1f00"),
    _t("xor", "xorl %eax,%eax", "31c0"),
    _t("push", "pushq %rax", "50"),
    _t("pop", "popq %rax", "58"),
    # imm: (byte offset, size, little endian)
    _t("mark", "movl ${imm},%eax", "b800000000", imm=(1, 4)),
    _t("lea", "leaq {sym}(%rip),%rax", "488d0500000000", symfield=(3, 4)),
    _t("load", "movl {sym},%eax", "8b042500000000", symfield=(3, 4)),
    # a pc-relative operand that is not the last field of the instruction (an immediate follows it)
    _t("cmpm", "cmpl $1,{sym}(%rip)", "833d0000000001", symfield=(2, 4)),
    _t("jmp", "jmp {sym}", "eb00", "jmp", (1, 1)),
    _t("jmp32", "jmp {sym}", "e900000000", "jmp", (1, 4), patch=False),
    _t("je", "je {sym}", "7400", "jcc", (1, 1)),
    _t("call", "call {sym}", "e800000000", "call", (1, 4)),
    _t("ijmp", "jmp *%rax", "ffe0", "ijmp"),
    _t("icall", "call *%rax", "ffd0", "icall"),
    # indirect transfers through a memory operand that names a symbol (input listings only)
    _t("icallm", "call *{sym}(%rip)", "ff1500000000", "icall", (2, 4), patch=False),
    _t("ijmpm", "jmp *{sym}(%rip)", "ff2500000000", "ijmp", (2, 4), patch=False),
    _t("ret", "ret", "c3", "ret"),
]

IA32 = [
    _t("nop", "nop", "90"),
    _t("nop2", "xchg %ax,%ax", "6690"),
    _t("nop3", "nopl (%eax)", "0f1f00"),
    _t("xor", "xorl %eax,%eax", "31c0"),
    _t("push", "pushl %eax", "50"),
    _t("pop", "popl %eax", "58"),
    _t("mark", "movl ${imm},%eax", "b800000000", imm=(1, 4)),
    _t("lea", "movl ${sym},%eax", "b800000000", symfield=(1, 4)),
    _t("load", "movl {sym},%eax", "a100000000", symfield=(1, 4)),
    _t("jmp", "jmp {sym}", "eb00", "jmp", (1, 1)),
    _t("jmp32", "jmp {sym}", "e900000000", "jmp", (1, 4), patch=False),
    _t("je", "je {sym}", "7400", "jcc", (1, 1)),
    _t("call", "call {sym}", "e800000000", "call", (1, 4)),
    _t("ijmp", "jmp *%eax", "ffe0", "ijmp"),
    _t("icall", "call *%eax", "ffd0", "icall"),
    _t("ret", "ret", "c3", "ret"),
]

ARM64 = [
    _t("nop", "nop", "1f2003d5"),
    _t("xor", "add x0,x0,#1", "00040091"),
    _t("push", "add x1,x1,#2", "21080091"),
    # movz w0,#imm16 ; imm at bits 5..20 -> handled by encoder below
    _t("mark", "mov w9,#{imm}", "09008052", imm=(0, 4)),
    _t("lea", "adrp x0,{sym}", "00000090", symfield=(0, 4)),
    _t("load", "add x0,x0,:lo12:{sym}", "00000091", symfield=(0, 4)),
    _t("jmp", "b {sym}", "00000014", "jmp", (0, 4)),
    _t("je", "b.eq {sym}", "00000054", "jcc", (0, 4)),
    _t("call", "bl {sym}", "00000094", "call", (0, 4)),
    _t("ijmp", "br x0", "00001fd6", "ijmp"),
    _t("icall", "blr x0", "00003fd6", "icall"),
    _t("ret", "ret", "c0035fd6", "ret"),
]

# MIPS32: big-endian; LLVM inserts delay-slot nops after control transfers, so
# only ordinary instructions take part (DESIGN 1.3).
MIPS32 = [
    _t("nop", "nop", "00000000"),
    _t("xor", "addiu $8,$8,1", "25080001"),
    _t("push", "addiu $9,$9,2", "25290002"),
    _t("mark", "ori $10,$zero,{imm}", "340a0000", imm=(2, 2)),
]

# Intel-syntax text of the x86-64 templates (same bytes)
X64_INTEL = {
    "nop": "nop", "nop2": "xchg ax,ax", "nop3": "nop dword ptr [rax]", "xor": "xor eax,eax",
    "push": "push rax", "pop": "pop rax", "mark": "mov eax,{imm}", "lea": "lea rax,[rip+{sym}]",
    "cmpm": "cmp dword ptr [rip+{sym}],1",
    "jmp": "jmp {sym}", "je": "je {sym}", "call": "call {sym}", "ijmp": "jmp rax", "icall": "call rax", "ret": "ret",
}

# x86 instructions with two symbolic operands of different widths (memory displacement + immediate):
# (name, AT&T text, Intel text | None, bytes, [(byte offset, byte size) of {s1}, of {s2}])
TWO_SYM = {
    "x64": [
        ("movw2", "movw ${s2},{s1}(%rip)", "mov word ptr [rip+{s1}],offset {s2}", "66c705000000000000", [(3, 4), (7, 2)]),
        ("movb2", "movb ${s2},{s1}(%rip)", "mov byte ptr [rip+{s1}],offset {s2}", "c6050000000000", [(2, 4), (6, 1)]),
        ("movl2", "movl ${s2},{s1}(%rip)", "mov dword ptr [rip+{s1}],offset {s2}", "c7050000000000000000", [(2, 4), (6, 4)]),
        ("cmpw2", "cmpw ${s2},{s1}(%rip)", None, "66833d0000000000", [(3, 4), (7, 1)]),
    ],
    "ia32": [
        ("movw2", "movw ${s2},{s1}", None, "66c705000000000000", [(3, 4), (7, 2)]),
        ("movb2", "movb ${s2},{s1}", None, "c6050000000000", [(2, 4), (6, 1)]),
        ("movl2", "movl ${s2},{s1}", None, "c7050000000000000000", [(2, 4), (6, 4)]),
    ],
}

TABLES = {"x64": X64, "ia32": IA32, "arm64": ARM64, "mips32": MIPS32}
TRIPLES = {
    ("x64", "elf"): "x86_64-pc-linux",
    ("x64", "pe"): "x86_64-pc-win32",
    ("ia32", "pe"): "i386-pc-win32",
    ("ia32", "elf"): "i386-pc-linux",
    ("arm64", "elf"): "arm64-pc-linux",
    ("mips32", "elf"): "mips-pc-linux",
}
PAIRS = [("x64", "elf"), ("x64", "pe"), ("ia32", "pe"), ("arm64", "elf"), ("mips32", "elf")]
NOP = {"x64": b"\x90", "ia32": b"\x90", "arm64": bytes.fromhex("1f2003d5"),
       "mips32": b"\x00\x00\x00\x00"}
IMM_MAX = {"x64": 0xFFFFFFFF, "ia32": 0xFFFFFFFF, "arm64": 0xFFFF, "mips32": 0xFFFF}


def table(isa):
    return {t.name: t for t in TABLES[isa]}


def encode(isa, tpl, imm=0):
    """Bytes of a template instance."""
    b = bytearray(tpl.bytes)
    if tpl.imm is not None:
        imm &= IMM_MAX[isa]
        if isa in ("x64", "ia32"):
            off, size = tpl.imm
            b[off:off + size] = imm.to_bytes(size, "little")
        elif isa == "arm64":
            word = int.from_bytes(tpl.bytes, "little") | (imm << 5)
            b[:] = word.to_bytes(4, "little")
        elif isa == "mips32":
            off, size = tpl.imm
            b[off:off + size] = imm.to_bytes(size, "big")
    return bytes(b)


def render(isa, tpl, sym=None, imm=0, intel=False):
    text = X64_INTEL[tpl.name] if intel else tpl.text
    if "{sym}" in text:
        text = text.replace("{sym}", sym)
    if "{imm}" in text:
        text = text.replace("{imm}", str(imm & IMM_MAX[isa]))
    return text


def gtirb_isa(isa):
    import gtirb

    return {"x64": gtirb.Module.ISA.X64, "ia32": gtirb.Module.ISA.IA32,
            "arm64": gtirb.Module.ISA.ARM64, "mips32": gtirb.Module.ISA.MIPS32}[isa]


def gtirb_fmt(fmt):
    import gtirb

    return {"elf": gtirb.Module.FileFormat.ELF, "pe": gtirb.Module.FileFormat.PE}[fmt]


_calibrated = False


def calibrate():
    global _calibrated
    if _calibrated:
        return
    import capstone
    import mcasm

    class S(mcasm.Streamer):
        def __init__(self):
            super().__init__()
            self.out = []

        def emit_instruction(self, state, inst, data, fixups):
            self.out.append((bytes(data), [(f.offset, f.kind_info.bit_size) for f in fixups]))

        def unhandled_event(self, name, base_impl, *a, **k):
            return base_impl(*a, **k)

    cs_arch = {
        "x64": (capstone.CS_ARCH_X86, capstone.CS_MODE_64),
        "ia32": (capstone.CS_ARCH_X86, capstone.CS_MODE_32),
        "arm64": (capstone.CS_ARCH_ARM64, capstone.CS_MODE_ARM),
        "mips32": (capstone.CS_ARCH_MIPS, capstone.CS_MODE_MIPS32 | capstone.CS_MODE_BIG_ENDIAN),
    }
    for (isa, fmt) in PAIRS:
        md = capstone.Cs(*cs_arch[isa])
        md.detail = True
        for tpl in TABLES[isa]:
            if not tpl.patch:
                # input-only encodings are checked by capstone alone
                insns = list(md.disasm(tpl.bytes, 0))
                if len(insns) != 1 or insns[0].size != len(tpl.bytes):
                    raise HarnessError(f"calibration: {isa} {tpl.name} does not decode")
                continue
            imm = 0x1234
            text = render(isa, tpl, "undefsym", imm)
            s = S()
            mcasm.Assembler(TRIPLES[(isa, fmt)]).assemble(s, text + "\n")
            if len(s.out) != 1:
                raise HarnessError(f"calibration: {isa}/{fmt} {tpl.name}: {len(s.out)} instructions")
            data, fixups = s.out[0]
            want = encode(isa, tpl, imm)
            if data != want:
                raise HarnessError(
                    f"calibration: {isa}/{fmt} {tpl.name} '{text}': mcasm {data.hex()} table {want.hex()}")
            if bool(fixups) != bool(tpl.symfield):
                raise HarnessError(f"calibration: {isa}/{fmt} {tpl.name}: fixups {fixups}")
            if tpl.symfield and isa in ("x64", "ia32"):
                if fixups[0][0] != tpl.symfield[0] or fixups[0][1] != 8 * tpl.symfield[1]:
                    raise HarnessError(f"calibration: {isa}/{fmt} {tpl.name}: fixup {fixups} table {tpl.symfield}")
            insns = list(md.disasm(data, 0))
            if len(insns) != 1 or insns[0].size != len(data):
                raise HarnessError(f"calibration: {isa} {tpl.name} capstone disagrees")
            if isa == "x64" and tpl.name in X64_INTEL:
                s2 = S()
                a2 = mcasm.Assembler(TRIPLES[(isa, fmt)])
                a2.x86_syntax = mcasm.X86Syntax.INTEL
                a2.assemble(s2, render(isa, tpl, "undefsym", imm, intel=True) + "\n")
                if len(s2.out) != 1 or s2.out[0][0] != want:
                    raise HarnessError(f"calibration: x64 intel {tpl.name}: {s2.out} vs {want.hex()}")
            groups = set(insns[0].groups)
            is_transfer = bool(groups & {capstone.CS_GRP_JUMP, capstone.CS_GRP_CALL, capstone.CS_GRP_RET,
                                         capstone.CS_GRP_BRANCH_RELATIVE})
            if isa != "mips32" and is_transfer != (tpl.kind in TRANSFER):
                raise HarnessError(f"calibration: {isa} {tpl.name} kind {tpl.kind} vs capstone groups {groups}")
        for name, att, intel, hexb, fields in TWO_SYM.get(isa, []):
            for syntax, text in (("att", att), ("intel", intel)):
                if text is None:
                    continue
                s = S()
                a = mcasm.Assembler(TRIPLES[(isa, fmt)])
                if syntax == "intel":
                    a.x86_syntax = mcasm.X86Syntax.INTEL
                a.assemble(s, text.replace("{s1}", "undefa").replace("{s2}", "undefb") + "\n")
                if len(s.out) != 1 or s.out[0][0] != bytes.fromhex(hexb):
                    raise HarnessError(f"calibration: {isa}/{fmt} {name} {syntax}: {[(d.hex(), f) for d, f in s.out]} table {hexb}")
                fx = sorted(s.out[0][1])
                if fx != sorted((o, 8 * n) for o, n in fields):
                    raise HarnessError(f"calibration: {isa}/{fmt} {name} {syntax}: fixups {fx} table {fields}")
                insns = list(md.disasm(s.out[0][0], 0))
                if len(insns) != 1 or insns[0].size != len(s.out[0][0]):
                    raise HarnessError(f"calibration: {isa} {name} capstone disagrees")
    _calibrated = True


def temp_prefix(isa, fmt):
    """private (temporary) label prefix of the target, as LLVM defines it"""
    if isa == "mips32":
        return "$"
    if (isa, fmt) == ("ia32", "pe"):
        return "L"
    return ".L"
