"""
Observers over a GTIRB IR: canonical (UUID-free) dump and whole-IR validator.
"""

import re
import uuid as _uuid

TEMP_RE = re.compile(r"^((?:\.L|L|\$)p\d+_\d+)_(\d+)$")


class Canon:
    def __init__(self, ir, rename_temps=False):
        import gtirb

        self.g = gtirb
        self.ir = ir
        self.rename_temps = rename_temps
        self.m = ir.modules[0]
        self.bi_index = {}
        self.sec_base = {}
        for sec in self.m.sections:
            # (ties between empty intervals at one address are broken by
            # UUID-free content so that the dump does not depend on set order)
            ivs = sorted(sec.byte_intervals,
                         key=lambda bi: (bi.address if bi.address is not None else 1 << 62, bi.size,
                                         sorted((type(b).__name__, b.offset, b.size, sorted(s_.name for s_ in b.references))
                                                for b in bi.blocks)))
            base = min((bi.address for bi in ivs if bi.address is not None), default=0)
            pos = 0
            for k, bi in enumerate(ivs):
                self.bi_index[bi] = (sec.name, k)
            self.sec_base[sec] = base
        self._proxy_tags = None
        self._names = None

    # -- names -----------------------------------------------------------
    def name(self, sym):
        if not self.rename_temps:
            return sym.name
        if self._names is None:
            # renumber temp-label suffixes by first appearance in address order
            temps = []
            for s in self.m.symbols:
                mt = TEMP_RE.match(s.name)
                if mt:
                    r = s.referent
                    key = (0, "", 0)
                    if isinstance(r, self.g.ByteBlock) and r.byte_interval is not None and r.section is not None:
                        key = (1, r.section.name, (r.address or 0) - self.sec_base.get(r.section, 0), s.at_end)
                    temps.append((key, mt.group(1), mt.group(2), s))
            self._names = {}
            for key, basen, suf, s in temps:
                # the per-invocation suffix is dropped (bases are unique per patch)
                self._names[s] = f"{basen}_T"
        return self._names.get(sym, sym.name)

    # -- node descriptions -------------------------------------------------
    def proxy_tag(self, p):
        if self._proxy_tags is None:
            tags = {}
            for s in self.m.symbols:
                if isinstance(s.referent, self.g.ProxyBlock):
                    tags.setdefault(s.referent, []).append(self.name(s))
            self._proxy_tags = {k: "sym:" + ",".join(sorted(v)) for k, v in tags.items()}
        if p in self._proxy_tags:
            return self._proxy_tags[p]
        return "anon" if p in self.m.proxies else "anon-not-in-module"

    def node(self, n):
        g = self.g
        if isinstance(n, g.ByteBlock):
            bi = n.byte_interval
            if bi is None or bi not in self.bi_index:
                return ["DEAD-BLOCK"]
            sec, k = self.bi_index[bi]
            return ["B", sec, k, n.offset, n.size, type(n).__name__]
        if isinstance(n, g.ProxyBlock):
            return ["P", self.proxy_tag(n)]
        if isinstance(n, g.Symbol):
            return ["S", self.name(n)] if n.module is self.m else ["DEAD-SYMBOL", n.name]
        if isinstance(n, g.Section):
            return ["SEC", n.name] if n.module is self.m else ["DEAD-SECTION"]
        if isinstance(n, g.ByteInterval):
            return ["BI"] + list(self.bi_index[n]) if n in self.bi_index else ["DEAD-INTERVAL"]
        if isinstance(n, g.Module):
            return ["M"]
        if isinstance(n, g.IR):
            return ["IR"]
        return ["NODE", type(n).__name__]

    def value(self, v):
        g = self.g
        if isinstance(v, g.Node):
            return self.node(v)
        if isinstance(v, g.Offset):
            return ["OFF", self.value(v.element_id), v.displacement]
        if isinstance(v, _uuid.UUID):
            return ["UUID", "null" if v.int == 0 else "unresolved"]
        if isinstance(v, dict) or hasattr(v, "items"):
            items = [[self.value(k), self.value(x)] for k, x in v.items()]
            return ["MAP", sorted(items, key=repr)]
        if isinstance(v, (set, frozenset)):
            return ["SET", sorted((self.value(x) for x in v), key=repr)]
        if isinstance(v, (list, tuple)):
            return [self.value(x) for x in v]
        if isinstance(v, (bytes, bytearray)):
            return bytes(v).hex()
        if isinstance(v, (int, str, bool, float)) or v is None:
            return v
        return repr(v)

    def symexpr(self, e):
        g = self.g
        attrs = sorted(a.name if hasattr(a, "name") else str(a) for a in e.attributes)
        if isinstance(e, g.SymAddrConst):
            return ["SAC", self.node(e.symbol), e.offset, attrs]
        if isinstance(e, g.SymAddrAddr):
            return ["SAA", self.node(e.symbol1), self.node(e.symbol2), e.scale, e.offset, attrs]
        return [type(e).__name__]

    def dump(self, aux=True, skip_aux=()):
        g = self.g
        m = self.m
        out = {"module": [m.name, m.isa.name, m.file_format.name, m.byte_order.name],
               "entry": self.node(m.entry_point) if m.entry_point is not None else None}
        secs = []
        for sec in sorted(m.sections, key=lambda s: s.name):
            ivs = sorted(sec.byte_intervals, key=lambda bi: self.bi_index[bi][1])
            base = self.sec_base[sec]
            ivd = []
            for bi in ivs:
                ivd.append({
                    "addr": None if bi.address is None else bi.address - base,
                    "size": bi.size,
                    "init": bi.initialized_size,
                    "bytes": bytes(bi.contents).hex(),
                    "blocks": sorted([type(b).__name__, b.offset, b.size,
                                      getattr(getattr(b, "decode_mode", None), "name", None)] for b in bi.blocks),
                    "symexprs": sorted([off, self.symexpr(e)] for off, e in bi.symbolic_expressions.items()),
                })
            secs.append({"name": sec.name, "flags": sorted(f.name for f in sec.flags), "intervals": ivd})
        out["sections"] = secs
        out["symbols"] = sorted(
            [self.name(s), (self.node(s.referent) if s.referent is not None else (["VALUE", s.value] if s.value is not None else None)),
             bool(s.at_end)] for s in m.symbols)
        out["proxies"] = sorted(self.proxy_tag(p) for p in m.proxies)
        edges = []
        for e in self.ir.cfg:
            l = e.label
            edges.append([self.node(e.source), self.node(e.target),
                          None if l is None else [l.type.name, bool(l.conditional), bool(l.direct)]])
        out["cfg"] = sorted(edges, key=repr)
        if aux:
            ad = {}
            for name, table in sorted(m.aux_data.items()):
                if name in skip_aux:
                    continue
                ad[name] = [table.type_name, self.value(table.data)]
            out["aux"] = ad
        return out


def canonical_dump(ir, rename_temps=False, aux=True, skip_aux=()):
    return Canon(ir, rename_temps).dump(aux=aux, skip_aux=skip_aux)


def first_diff(a, b, path=""):
    """Human-readable first difference of two JSON-like values."""
    if type(a) != type(b):
        return f"{path}: {a!r} != {b!r}"[:400]
    if isinstance(a, dict):
        for k in sorted(set(a) | set(b)):
            if k not in a:
                return f"{path}/{k}: missing on the left, right has {b[k]!r}"[:400]
            if k not in b:
                return f"{path}/{k}: missing on the right, left has {a[k]!r}"[:400]
            d = first_diff(a[k], b[k], f"{path}/{k}")
            if d:
                return d
        return None
    if isinstance(a, list):
        if len(a) != len(b):
            for i, (x, y) in enumerate(zip(a, b)):
                d = first_diff(x, y, f"{path}[{i}]")
                if d:
                    return d
            extra = a[len(b):] or b[len(a):]
            return f"{path}: lengths {len(a)} != {len(b)}; extra {extra[:2]!r}"[:400]
        for i, (x, y) in enumerate(zip(a, b)):
            d = first_diff(x, y, f"{path}[{i}]")
            if d:
                return d
        return None
    if a != b:
        return f"{path}: {a!r} != {b!r}"[:400]
    return None


# ---------------------------------------------------------------------------
# whole-IR validator (C05)
# ---------------------------------------------------------------------------
def _walk_nodes(v, g, acc):
    if isinstance(v, g.Node):
        acc.append(v)
    elif isinstance(v, g.Offset):
        _walk_nodes(v.element_id, g, acc)
    elif isinstance(v, _uuid.UUID):
        acc.append(v)
    elif isinstance(v, dict) or hasattr(v, "items"):
        for k, x in v.items():
            _walk_nodes(k, g, acc)
            _walk_nodes(x, g, acc)
    elif isinstance(v, (set, frozenset, list, tuple)):
        for x in v:
            _walk_nodes(x, g, acc)


def live(node, m, g):
    """Is the node a live member of module m?"""
    if isinstance(node, g.ByteBlock):
        return node.byte_interval is not None and node.module is m
    if isinstance(node, g.ProxyBlock):
        return node in m.proxies
    if isinstance(node, g.Symbol):
        return node.module is m and node in m.symbols
    if isinstance(node, g.ByteInterval):
        return node.module is m
    if isinstance(node, g.Section):
        return node.module is m
    if isinstance(node, g.Module):
        return node is m
    return True


def validate_ir(ir, input_zero_sized=(), after_fault=False, original_blocks=None, self_loop_blocks=(), input_next=None,
                nocode_after=None):
    """Returns a list of (kind, detail) problems."""
    import io

    import gtirb as g

    problems = []
    m = ir.modules[0]

    def bad(kind, detail=""):
        problems.append((kind, str(detail)[:300]))

    # blocks inside their intervals, no overlaps, addresses
    for sec in m.sections:
        if sec.module is not m:
            bad("section-module")
        spans = []
        for bi in sec.byte_intervals:
            if bi.address is None:
                bad("interval-without-address", sec.name)
            if bi.initialized_size > bi.size or len(bi.contents) != bi.initialized_size:
                bad("interval-sizes", f"{sec.name}: size {bi.size} init {bi.initialized_size} contents {len(bi.contents)}")
            blocks = sorted(bi.blocks, key=lambda b: (b.offset, b.size))
            for b in blocks:
                if b.offset < 0 or b.offset + b.size > bi.size:
                    bad("block-outside-interval", f"{sec.name}: block {b.offset}+{b.size} interval size {bi.size}")
                if b.address is None:
                    bad("block-without-address", sec.name)
            for a, b in zip(blocks, blocks[1:]):
                if a.size and b.size and a.offset + a.size > b.offset:
                    bad("blocks-overlap", f"{sec.name}: {a.offset}+{a.size} and {b.offset}+{b.size}")
            for off in bi.symbolic_expressions:
                if not (0 <= off < bi.size):
                    bad("symexpr-outside-interval", f"{sec.name}: {off} / {bi.size}")
            if bi.address is not None:
                spans.append((bi.address, bi.address + bi.size))
        spans.sort()
        for (a0, a1), (b0, b1) in zip(spans, spans[1:]):
            if a1 > b0 and not after_fault:
                bad("intervals-overlap", sec.name)
    # CFG closure
    for e in ir.cfg:
        for end, n in (("source", e.source), ("target", e.target)):
            if isinstance(n, g.CodeBlock):
                if not live(n, m, g):
                    bad("cfg-endpoint-dead-block", f"{end} of {e.label}")
            elif isinstance(n, g.ProxyBlock):
                if n not in m.proxies:
                    bad("cfg-endpoint-proxy-not-in-module", f"{end} of {e.label}")
            else:
                bad("cfg-endpoint-not-a-cfg-node", type(n).__name__)
    # symbols
    names = {}
    for s in m.symbols:
        r = s.referent
        if r is not None and not live(r, m, g):
            bad("symbol-referent-dead", s.name)
    for bi in m.byte_intervals:
        for off, e in bi.symbolic_expressions.items():
            for sym in e.symbols:
                if not live(sym, m, g):
                    bad("symexpr-symbol-not-in-module", sym.name)
    if m.entry_point is not None and not live(m.entry_point, m, g):
        bad("entry-point-dead")
    # aux data
    for name, table in m.aux_data.items():
        acc = []
        _walk_nodes(table.data, g, acc)
        for n in acc:
            if isinstance(n, _uuid.UUID):
                continue
            if not live(n, m, g):
                bad("aux-mentions-dead-node", f"{name}: {type(n).__name__}")
                break
    # zero-sized blocks only in the documented cases
    for sec in m.sections:
        blocks = sorted(sec.byte_blocks, key=lambda b: (b.address or 0, b.size != 0))
        cfi = m.aux_data.get("cfiDirectives")
        for k, b in enumerate(blocks):
            if b.size or b in input_zero_sized or after_fault:
                continue
            nxt = blocks[k + 1] if k + 1 < len(blocks) else None
            prv = blocks[k - 1] if k > 0 else None
            # the documented conditions hold at deletion time: a neighbour
            # that a later patch created does not count
            if original_blocks is not None:
                if nxt is not None and nxt not in original_blocks:
                    nxt = None
                if prv is not None and prv not in original_blocks:
                    prv = None
            # blocks are processed in address order, so when an input block
            # was deleted its successor in the input was still there (it may
            # have been deleted afterwards)
            if input_next is not None and b in input_next:
                nxt = input_next[b]
            elif nocode_after is not None and nocode_after(b):
                # a block a patch created (e.g. the return site of a patch call) that was emptied where the input
                # block it lies in was followed by data or by nothing when the decision was made
                nxt = None
            reasons = []
            # (alignment padding that the closing join put in front of the emptied block is not a place labels
            # could have gone to: new, unreferenced, no edges)
            def padding_like(x):
                if original_blocks is None or x in original_blocks or any(True for _ in x.references):
                    return False
                if isinstance(x, g.CodeBlock) and (any(True for _ in x.incoming_edges) or any(True for _ in x.outgoing_edges)):
                    return False
                return True

            if any(True for _ in b.references) and len([x for x in blocks if x is b or not padding_like(x)]) == 1:
                reasons.append("labels, only block of the section")
            if isinstance(b, g.CodeBlock):
                # (Deletion.md: "the block has incoming control flow" - a
                # fallthrough from a call or conditional jump counts)
                inc = list(b.incoming_edges)
                if (inc or b in self_loop_blocks) and not isinstance(nxt, g.CodeBlock):
                    # (an edge from the deleted block to itself counted as
                    # incoming control flow when the decision was made)
                    reasons.append("incoming edges, no following code block")
                has_cfi = False
                if cfi is not None:
                    for key in cfi.data:
                        if key.element_id is b:
                            has_cfi = True
                if has_cfi and not isinstance(prv, g.CodeBlock) and not isinstance(nxt, g.CodeBlock):
                    reasons.append("CFI, no adjacent code block")
                special = m.entry_point is b
                for t in ("elfDynamicInit", "elfDynamicFini"):
                    if t in m.aux_data and m.aux_data[t].data is b:
                        special = True
                if special and not isinstance(nxt, g.CodeBlock):
                    reasons.append("entry point / DT_INIT / DT_FINI, no following code block")
            if not reasons:
                bad("undocumented-zero-sized-block", f"{sec.name}: {type(b).__name__} at {b.offset}")
    # protobuf round trip
    try:
        before = canonical_dump(ir)
        buf = io.BytesIO()
        ir.save_protobuf_file(buf)
        buf.seek(0)
        ir2 = g.IR.load_protobuf_file(buf)
        after = canonical_dump(ir2)
        if before != after:
            bad("protobuf-roundtrip-differs", first_diff(before, after))
    except Exception as e:
        bad("protobuf-roundtrip-raised", repr(e))
    return problems
