"""CLI: python -m vp.run <Cxx> --tier quick|thorough [--replay FILE] [--jobs N]"""
import argparse
import os
import sys


def main():
    if os.environ.get("PYTHONHASHSEED") is None:
        env = dict(os.environ, PYTHONHASHSEED="0")
        os.execve(sys.executable, [sys.executable, "-m", "vp.run"] + sys.argv[1:], env)
    ap = argparse.ArgumentParser()
    ap.add_argument("prop")
    ap.add_argument("--tier", default=os.environ.get("VERIF_TIER", "quick"),
                    choices=["quick", "thorough"])
    ap.add_argument("--replay")
    ap.add_argument("--jobs", type=int, default=int(os.environ.get("VERIF_JOBS", "16")))
    args = ap.parse_args()
    try:
        seed = int(os.environ.get("VERIF_SEED", "1") or "1")
    except ValueError:
        seed = 1
    here = os.path.dirname(os.path.dirname(os.path.abspath(__file__)))
    os.chdir(here)
    if here not in sys.path:
        sys.path.insert(0, here)
    from vp import core

    try:
        if args.replay:
            rc = core.replay(args.prop.upper(), args.replay)
        else:
            rc = core.run_property(args.prop.upper(), args.tier, seed, args.jobs)
    except core.HarnessError as e:
        print(f"HARNESS-ERROR property={args.prop}: {e}")
        rc = 2
    except Exception:
        import traceback

        traceback.print_exc()
        print(f"HARNESS-ERROR property={args.prop}")
        rc = 2
    sys.stdout.flush()
    sys.exit(rc)


if __name__ == "__main__":
    main()
