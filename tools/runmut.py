#!/venv/bin/python
"""Apply each mutant to /repo, run the property's quick check, revert.
usage: tools/runmut.py <Cxx> <mutant-name>... [--tests]   (mutant names without .diff)
Prints one line per mutant: KILLED / SURVIVED (+ whether baseline tests pass with --tests)."""
import subprocess, sys, os, time
here = os.path.dirname(os.path.abspath(__file__))
root = os.path.dirname(here)
args = [a for a in sys.argv[1:] if not a.startswith("--")]
run_tests = "--tests" in sys.argv
prop, names = args[0], args[1:]
assert subprocess.run(["git", "-C", "/repo", "status", "--porcelain"], capture_output=True, text=True).stdout.strip() == "", "/repo dirty"
for n in names:
    p = os.path.join(here, "mutants", n + ".diff")
    subprocess.run(["git", "-C", "/repo", "apply", p], check=True)
    try:
        t = time.time()
        r = subprocess.run(["/venv/bin/python", "-m", "vp.run", prop, "--tier", "quick"], cwd=root, capture_output=True, text=True,
                           env=dict(os.environ, VERIF_NO_EVIDENCE="1"))
        viol = [l for l in r.stdout.splitlines() if l.startswith("VIOLATION")]
        status = {0: "SURVIVED", 1: "KILLED", 2: "HARNESS-ERROR"}.get(r.returncode, f"rc={r.returncode}")
        tests = ""
        if run_tests:
            tr = subprocess.run("cd /repo && /venv/bin/python -m pytest -q -p no:cacheprovider -x --deselect tests/test_e2e.py 2>&1 | tail -1", shell=True, capture_output=True, text=True)
            tests = " tests: " + tr.stdout.strip()
        print(f"{prop} {n}: {status} ({len(viol)} buckets, {time.time()-t:.0f}s){tests}")
        for l in r.stdout.splitlines():
            if l.startswith("VIOLATION") or l.startswith("  C") or l.startswith("HARNESS"):
                print("    " + l[:300])
    finally:
        subprocess.run(["git", "-C", "/repo", "checkout", "--", "."], check=True)
        # replays written while a mutant was applied are not evidence
        subprocess.run("git clean -fdq replays evidence 2>/dev/null; git checkout -- evidence 2>/dev/null; git checkout -- replays 2>/dev/null", shell=True, cwd=root)
