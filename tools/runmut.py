#!/venv/bin/python
"""Sensitivity runs: apply each mutant patch to a scratch copy of /repo (under
/tmp, removed afterwards), run the property's quick check against the copy
(VERIF_REPO_SRC) and optionally the baseline tests inside the copy.
usage: tools/runmut.py <Cxx> <mutant-name|path.diff>... [--tests] [--tier quick]
"""
import os, shutil, subprocess, sys, tempfile, time
here = os.path.dirname(os.path.abspath(__file__))
root = os.path.dirname(here)
argv = list(sys.argv[1:])
keep = None
if "--keep" in argv:          # --keep DIR: save up to two shrunk replays per change as DIR/<prop>-<change>-<k>.json
    i = argv.index("--keep")
    keep = os.path.abspath(argv[i + 1])
    del argv[i:i + 2]
args = [a for a in argv if not a.startswith("--")]
run_tests = "--tests" in argv
prop, names = args[0], args[1:]
for n in names:
    p = n if os.path.exists(n) else os.path.join(here, "mutants", n + ".diff")
    p = os.path.abspath(p)
    d = tempfile.mkdtemp(prefix="mut_", dir="/tmp")
    try:
        subprocess.run(["git", "-C", "/repo", "worktree", "add", "--detach", "-f", d + "/r", "HEAD"], check=True, capture_output=True)
        shutil.copy("/repo/src/gtirb_rewriting/version.py", d + "/r/src/gtirb_rewriting/version.py")
        r = subprocess.run(["git", "-C", d + "/r", "apply", p], capture_output=True, text=True)
        if r.returncode:
            print(f"{prop} {n}: PATCH DOES NOT APPLY: {r.stderr.strip()[:200]}")
            continue
        out = tempfile.mkdtemp(prefix="out_", dir=d)
        t = time.time()
        env = dict(os.environ, VERIF_REPO_SRC=d + "/r/src", VERIF_OUT=out)
        r = subprocess.run(["/venv/bin/python", "-m", "vp.run", prop, "--tier", "quick"], cwd=root, capture_output=True, text=True, env=env)
        viol = [l for l in r.stdout.splitlines() if l.startswith("VIOLATION")]
        status = {0: "SURVIVED", 1: "KILLED", 2: "HARNESS-ERROR"}.get(r.returncode, f"rc={r.returncode}")
        tests = ""
        if run_tests:
            tr = subprocess.run(f"cd {d}/r && PYTHONPATH={d}/r/src /venv/bin/python -m pytest -q -p no:cacheprovider --deselect tests/test_e2e.py 2>&1 | tail -1", shell=True, capture_output=True, text=True)
            tests = " | baseline tests: " + tr.stdout.strip()
        print(f"{prop} {os.path.basename(n)}: {status} ({len(viol)} buckets, {time.time()-t:.0f}s){tests}")
        if keep and viol:
            os.makedirs(keep, exist_ok=True)
            base = os.path.basename(n).replace(".diff", "")
            for k, l in enumerate(viol[:2]):
                rp = l.split("replay=")[1].strip()
                src = rp if os.path.isabs(rp) else os.path.join(out, rp)
                if os.path.exists(src):
                    shutil.copy(src, os.path.join(keep, f"{prop}-{base}-{k}.json"))
        shown = 0
        for l in r.stdout.splitlines():
            if (l.startswith("VIOLATION") or l.startswith("  C") or l.startswith("HARNESS")) and shown < 8:
                print("    " + l[:260]); shown += 1
        if r.returncode == 2:
            print(r.stdout[-1500:], r.stderr[-1500:])
        sys.stdout.flush()
    finally:
        subprocess.run(["git", "-C", "/repo", "worktree", "remove", "--force", d + "/r"], capture_output=True)
        shutil.rmtree(d, ignore_errors=True)
