#!/bin/bash
# run every registered check (quick tier) once; summary lines only
cd "$(dirname "$0")/.."
for p in $(/venv/bin/python -c "import json; print(' '.join(c['property_id'] for c in json.load(open('MANIFEST.json'))['checks']))"); do
  /venv/bin/python -m vp.run $p --tier ${1:-quick} 2>&1 | grep -E "^(C[0-9]+ (quick|thorough)|VIOLATION|HARNESS|NOTE)" | cut -c1-260
done
