#!/venv/bin/python
"""Regenerate DESIGN.md section 8.6 (kill matrix) from seeded/KILLMATRIX.json and seeded/*/meta.json."""
import json, os, re
root = os.path.dirname(os.path.dirname(os.path.abspath(__file__)))
km = json.load(open(os.path.join(root, "seeded", "KILLMATRIX.json")))
lines = ["### 8.6 Kill matrix", "",
         "Produced by `tools/killmatrix.py --tests` (every change applied to a scratch worktree of /repo HEAD, the quick",
         "check of the property run against it with `VERIF_REPO_SRC`, and the repository's own tests run on the changed",
         "tree). `mutant` = hand-written (`tools/mutants/<name>.diff`), `seeded` = written by an independent sub-agent that",
         "saw only the property text (`seeded/<id>/`: four rounds per property, `Cxx`, `Cxxb`, `Cxxc`, `Cxxd`, a fifth `Cxxe` for ten",
         "properties, and a file-targeted round `Fxx` in which the author also guessed further properties; a `(S, guess)` is",
         "such a guess that the demo does not substantiate; rounds c-e were run through tools/seedcheck.py and imported).",
         "Full rows incl. the first violation",
         "reported are in `seeded/KILLMATRIX.md`.", ""]
by = {}
for k, v in km.items():
    by.setdefault(v["property"], []).append(v)
tot = {"KILLED": 0, "SURVIVED": 0, "ERROR": 0}
lines += ["| property | killed | survived | changes (S = survived) |", "|---|---|---|---|"]
surv = []
for p in sorted(by):
    rows = sorted(by[p], key=lambda v: (v["kind"], v["change"]))
    names = []
    for v in rows:
        tot[v["status"]] = tot.get(v["status"], 0) + 1
        n = v["change"].replace("seeded/", "seed:")
        if v["status"] != "KILLED":
            n += (" (S, guess)" if v.get("note") else " (S)") if v["status"] == "SURVIVED" else " (ERR)"
            surv.append((p, v))
        names.append(n)
    k = sum(1 for v in rows if v["status"] == "KILLED")
    lines.append(f"| {p} | {k} | {len(rows) - k} | {', '.join(names)} |")
def passes(v):
    return bool(v.get("baseline_tests")) and "331 passed" in v["baseline_tests"]


allv = list(km.values())
quiet = [v for v in allv if passes(v)]
lines += ["", f"Totals: {tot.get('KILLED', 0)} killed, {tot.get('SURVIVED', 0)} survived, {tot.get('ERROR', 0)} errors "
          f"over {len(allv)} (change, property) pairs. {len(quiet)} of the pairs are changes under which the repository's own "
          f"331 tests still pass (all seeded ones by construction, and "
          f"{sum(1 for v in quiet if v['kind'] == 'mutant')} of the {sum(1 for v in allv if v['kind'] == 'mutant')} hand-written "
          f"mutants); of those {sum(1 for v in quiet if v['status'] == 'KILLED')} are killed. The survivors are explained below.", ""]
notes_path = os.path.join(root, "seeded", "SURVIVORS.md")
if os.path.exists(notes_path):
    lines += [open(notes_path).read().rstrip(), ""]
lines += ["Seeded changes (what each one breaks, and the check that reports it):", "",
          "| id | change | reported by |", "|---|---|---|"]
for d in sorted(os.listdir(os.path.join(root, "seeded"))):
    mp = os.path.join(root, "seeded", d, "meta.json")
    if not os.path.exists(mp):
        continue
    m = json.load(open(mp))
    summ = re.sub(r"\s+", " ", m.get("summary", ""))[:260].replace("|", "/")
    runs = "; ".join(f"{k}: {v.split('(')[0].strip()}" for k, v in (m.get("checks_run") or {}).items())
    lines.append(f"| {d} | {summ} | {runs} |")
with open(os.path.join(root, "seeded", "KILLMATRIX.md"), "w") as f:
    f.write("| property | change | kind | result | first violation reported | baseline tests with change | note |\n|---|---|---|---|---|---|---|\n")
    for k in sorted(km):
        v = km[k]
        f.write(f"| {v['property']} | {v['change']} | {v['kind']} | {v['status']} | {(v.get('first_violation') or '').replace('|', '/')} "
                f"| {v.get('baseline_tests') or ''} | {v.get('note') or ''} |\n")
text = "\n".join(lines) + "\n"
p = os.path.join(root, "DESIGN.md")
s = open(p).read()
tail = ""
if "### 8.6 Kill matrix" in s:
    rest = s[s.index("### 8.6 Kill matrix"):]
    s = s[:s.index("### 8.6 Kill matrix")]
    if "\n### 8.7 " in rest:
        tail = rest[rest.index("\n### 8.7 "):]   # later sections are kept
s = s.rstrip("\n") + "\n\n" + text + tail
open(p, "w").write(s)
print("8.6 written:", tot)
