#!/venv/bin/python
"""Create a mutant patch: tools/mkmut.py <name> <repo-relative-file> <old> <new>
Writes tools/mutants/<name>.diff (unified diff against /repo HEAD)."""
import subprocess, sys, os
name, rel, old, new = sys.argv[1:5]
path = os.path.join("/repo", rel)
src = open(path).read()
assert src.count(old) == 1, f"old string occurs {src.count(old)} times"
open(path, "w").write(src.replace(old, new))
diff = subprocess.run(["git", "-C", "/repo", "diff"], capture_output=True, text=True).stdout
subprocess.run(["git", "-C", "/repo", "checkout", "--", "."], check=True)
out = os.path.join(os.path.dirname(os.path.abspath(__file__)), "mutants", name + ".diff")
open(out, "w").write(diff)
print("wrote", out)
