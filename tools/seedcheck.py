#!/venv/bin/python
"""Confirm a seeded change and run checks against it.
usage: tools/seedcheck.py <seed-dir-name under /tmp, e.g. seed_C01> <Cxx> [more props to run...]
Copies _seed/{patch.diff,demo.py,meta.json} to /verif/seeded/<name>/, confirms (fresh scratch worktree of /repo HEAD):
baseline tests pass with the patch, demo fails with it and passes without it; then runs each property's quick check
against the patched tree (scratch copy, VERIF_REPO_SRC)."""
import json, os, shutil, subprocess, sys, tempfile
here = os.path.dirname(os.path.abspath(__file__)); root = os.path.dirname(here)
src, props = sys.argv[1], sys.argv[2:]
name = src.replace("seed_", "")
sdir = f"/tmp/{src}/_seed"
dst = os.path.join(root, "seeded", name)
os.makedirs(dst, exist_ok=True)
for f in ("patch.diff", "demo.py", "meta.json"):
    shutil.copy(os.path.join(sdir, f), os.path.join(dst, f))
d = tempfile.mkdtemp(prefix="seedchk_", dir="/tmp")
res = {}
try:
    subprocess.run(["git", "-C", "/repo", "worktree", "add", "--detach", "-f", d + "/r", "HEAD"], check=True, capture_output=True)
    shutil.copy("/repo/src/gtirb_rewriting/version.py", d + "/r/src/gtirb_rewriting/version.py")
    env = dict(os.environ, PYTHONPATH=f"{d}/r/src:{d}/r/tests")
    def demo():
        return subprocess.run(["/venv/bin/python", os.path.join(dst, "demo.py")], cwd=d + "/r", env=env, capture_output=True, text=True).returncode
    res["demo_without_patch"] = demo()
    r = subprocess.run(["git", "-C", d + "/r", "apply", os.path.join(dst, "patch.diff")], capture_output=True, text=True)
    res["patch_applies"] = r.returncode == 0
    if r.returncode:
        print("PATCH DOES NOT APPLY", r.stderr)
    res["demo_with_patch"] = demo()
    t = subprocess.run("/venv/bin/python -m pytest -q -p no:cacheprovider --deselect tests/test_e2e.py 2>&1 | tail -1", shell=True, cwd=d + "/r", env=env, capture_output=True, text=True)
    res["baseline_tests_with_patch"] = t.stdout.strip()
finally:
    subprocess.run(["git", "-C", "/repo", "worktree", "remove", "--force", d + "/r"], capture_output=True)
    shutil.rmtree(d, ignore_errors=True)
print(name, res)
ok = res.get("demo_without_patch") == 0 and res.get("demo_with_patch") != 0 and "331 passed" in res.get("baseline_tests_with_patch", "")
print("CONFIRMED" if ok else "NOT CONFIRMED")
meta = json.load(open(os.path.join(dst, "meta.json")))
meta["confirmed_by_verifier"] = res
meta["confirmed"] = ok
checks = {}
for p in props:
    r = subprocess.run([os.path.join(here, "runmut.py"), p, os.path.join(dst, "patch.diff")], capture_output=True, text=True)
    line = next((l for l in r.stdout.splitlines() if l.startswith(p)), r.stdout[-300:])
    print(line)
    for l in r.stdout.splitlines():
        if l.startswith("    "):
            print(l[:240])
    checks[p] = line.split(":", 1)[1].strip() if ":" in line else line
meta["checks_run"] = checks
json.dump(meta, open(os.path.join(dst, "meta.json"), "w"), indent=1)
