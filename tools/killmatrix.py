#!/venv/bin/python
"""Run every hand-written mutant (tools/mutants) and every seeded change
(seeded/<id>/patch.diff) against the quick check of its property, in scratch
worktrees, and write seeded/KILLMATRIX.json + seeded/KILLMATRIX.md.
usage: tools/killmatrix.py [--only cNN] [--tests]
"""
import json, os, re, subprocess, sys, time
here = os.path.dirname(os.path.abspath(__file__))
root = os.path.dirname(here)
# mutants that live under another property's prefix
ALSO = {"c11_split_sort": ["C09"]}
only = None
if "--only" in sys.argv:
    only = sys.argv[sys.argv.index("--only") + 1].lower()
jobs = []
for f in sorted(os.listdir(os.path.join(here, "mutants"))):
    m = re.match(r"c(\d\d)_", f)
    if not m or not f.endswith(".diff"):
        continue
    props = ["C" + m.group(1)] + ALSO.get(f[:-5], [])
    for p in props:
        jobs.append((p, "mutant", f[:-5], os.path.join(here, "mutants", f)))
for d in sorted(os.listdir(os.path.join(root, "seeded"))):
    p = os.path.join(root, "seeded", d, "patch.diff")
    if os.path.exists(p):
        if d.startswith("F"):
            # file-targeted seeds: the properties they claim to break
            meta = json.load(open(os.path.join(root, "seeded", d, "meta.json")))
            for pr in [meta.get("property")] + list(meta.get("also") or []):
                if pr and re.fullmatch(r"C\d\d", pr):
                    jobs.append((pr, "seeded", "seeded/" + d, p))
        else:
            jobs.append((d[:3], "seeded", "seeded/" + d, p))
if only:
    jobs = [j for j in jobs if j[0].lower() == only]
if "--match" in sys.argv:
    pat = sys.argv[sys.argv.index("--match") + 1]
    jobs = [j for j in jobs if re.search(pat, j[2])]
outp = os.path.join(root, "seeded", "KILLMATRIX.json")
res = json.load(open(outp)) if os.path.exists(outp) else {}
for prop, kind, name, path in jobs:
    t = time.time()
    cmd = ["/venv/bin/python", os.path.join(here, "runmut.py"), prop, path] + (["--tests"] if "--tests" in sys.argv else [])
    if "_revert_" in name:
        # the shrunk failing inputs of fixed defects become the regression replay tier
        cmd += ["--keep", os.path.join(root, "replays", "regress")]
    r = subprocess.run(cmd, capture_output=True, text=True, cwd=root)
    lines = r.stdout.splitlines()
    head = lines[0] if lines else "NO OUTPUT"
    status = "KILLED" if ": KILLED" in head else "SURVIVED" if ": SURVIVED" in head else "ERROR"
    first = next((l.strip() for l in lines[1:] if l.strip().startswith("C")), "")
    tests = head.split("baseline tests:")[1].strip() if "baseline tests:" in head else None
    res[f"{prop}:{name}"] = {"property": prop, "kind": kind, "change": name, "status": status,
                             "first_violation": first[:200], "baseline_tests": tests, "wall_s": round(time.time() - t)}
    print(prop, name, status, first[:120], flush=True)
    json.dump(res, open(outp, "w"), indent=1, sort_keys=True)
with open(os.path.join(root, "seeded", "KILLMATRIX.md"), "w") as f:
    f.write("| property | change | kind | result | first violation reported | baseline tests with change |\n|---|---|---|---|---|---|\n")
    for k in sorted(res):
        v = res[k]
        f.write(f"| {v['property']} | {v['change']} | {v['kind']} | {v['status']} | {v['first_violation'].replace('|', '/')} | {v['baseline_tests'] or ''} |\n")
