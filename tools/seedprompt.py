#!/usr/bin/env python3
"""Print the brief handed to an independent sub-agent that writes a seeded breaking change.
usage: tools/seedprompt.py Cxx <worktree> [focus hint...]
The brief contains only the property text and the scratch worktree - nothing from /verif."""
import json, os, sys
here = os.path.dirname(os.path.abspath(__file__))
pid, tree = sys.argv[1], sys.argv[2]
hint = " ".join(sys.argv[3:])
p = next(json.loads(l) for l in open(os.path.join(here, "..", "properties.jsonl")) if json.loads(l)["id"] == pid)
print(f"""You are helping to evaluate a verification effort for the Python library GrammaTech/gtirb-rewriting (rewriting GTIRB binary IR). Your job is to write ONE realistic, subtle regression: a small change to the library's source that BREAKS the semantic property below while the library still imports and its whole existing test suite still passes.

Property {pid}: {p['title']}
Statement: {p['statement']}
Quantified over: {p['quantifier']['text']}

Your working tree: {tree} (a scratch git worktree of the library at the commit under study; work ONLY inside it - never touch /repo, /verif or any other directory, and do not read /verif). Library sources are under {tree}/src/gtirb_rewriting, tests under {tree}/tests, docs under {tree}/doc and README.md.
Run things with: cd {tree} && PYTHONPATH={tree}/src:{tree}/tests /venv/bin/python ...   (the PYTHONPATH is REQUIRED: without it the interpreter imports another copy of the library).
Test suite: cd {tree} && PYTHONPATH={tree}/src:{tree}/tests /venv/bin/python -m pytest -q -p no:cacheprovider --deselect tests/test_e2e.py   (must report 331 passed both before and after your change; takes about 10 s).
There is no network. Helpers for building test modules are in the installed package gtirb_test_helpers (see the tests for usage).

Requirements for the change:
* It must look like something a maintainer could plausibly commit by mistake (a refactoring slip, an 'optimisation', a wrong variable, a narrowed or widened condition, an off-by-one, a changed iteration order, state that is not reset, two sites that each look fine alone) - not sabotage, not a special case on a magic value, no new environment checks.
* It must NOT be exposed by ordinary use: it should need something specific to manifest - a multi-step sequence of operations, an unusual but legal input shape, a particular combination of options, a particular ordering, an exception at a particular point, or two cooperating sites. The 331 existing tests must still pass with it.
* It must genuinely violate the property statement above for some legal input (not merely change an unspecified detail).{(' ' + chr(10) + '* Focus: ' + hint) if hint else ''}
* Keep it small (a few lines in one or two files under src/gtirb_rewriting).

Deliverables, all inside {tree}/_seed/ (the directory exists):
1. patch.diff - `git diff` of your change to src/ (produced with `cd {tree} && git diff -- src > _seed/patch.diff`; it must apply with `git apply` to a clean tree).
2. demo.py - a small self-contained program (uses only the library, gtirb, gtirb_test_helpers, stdlib) that exits 0 on the unchanged tree and exits non-zero (with a message saying what went wrong) with your change applied. It demonstrates the violation of the property through the public API.
3. meta.json - an object with keys: "property" ("{pid}"), "summary" (what you changed, file/function, and why it breaks the property), "needs" (what exactly is required for it to manifest and what does NOT expose it), "ran" (list of the commands you ran and their outcomes).

Before you finish, verify yourself: (a) clean tree: tests 331 passed, demo exits 0; (b) with the change: tests 331 passed, demo exits non-zero; (c) `git apply -R` then `git apply` of patch.diff works. Leave the change applied in the tree. If a candidate change makes an existing test fail, discard it and find another. Reply with a short summary (file, what changed, what it needs to manifest).""")
