#!/venv/bin/python
import json,sys
sys.path.insert(0,'/verif')
from vp import core; core.setup_repo_path()
from vp import listing as L
for f in sys.argv[1:]:
    d=json.load(open(f))
    print(f, d['failure']['clause'], d['failure']['kind'], d['failure']['detail'][:400], 'count', d.get('count'))
    case=L.Case(d['spec'])
    desc=L.describe(case)
    print("\n".join(desc['listing']));
    for k,v in sorted(case.cfi.items()): print("  cfi at block %d unit %d:"%k, "; ".join(f"{n} {a}" for n,a,s in v))
    print("\n".join(desc['edits'])); print()
