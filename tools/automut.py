#!/venv/bin/python
"""Automatic mutation sampling (sensitivity measurement beyond the hand-written / seeded changes).

Stage 1 (gen):   enumerate single-token mutants of the files the properties are anchored in (AST positions: comparison
                 and arithmetic operators, and/or, dropped `not`, integer constants +-1, `if c:` -> negated, dropped
                 expression statements / augmented assignments, break<->continue), sample N of them with a fixed PRNG
                 seed, and keep those under which the repository's own test suite still passes (the only interesting
                 ones: the existing tests cannot see them).
Stage 2 (run):   for each survivor of the tests run the quick checks (VERIF_BUDGET_SCALE, default 0.25) of the
                 properties anchored in the mutated file, fastest first, stop at the first kill.
Results: seeded/AUTOMUT.json (one record per mutant: file, line, kind, before/after text, tests, per-property status).

usage: tools/automut.py gen  --n 300 [--seed 1] [--files a.py,b.py]
       tools/automut.py run  [--scale 0.25] [--limit K] [--props C01,C02]
       tools/automut.py show
Scratch copies live under /tmp/automut_* and are removed as soon as each mutant is done.
"""
import ast, json, os, random, shutil, subprocess, sys, tempfile, time
from concurrent.futures import ThreadPoolExecutor
here = os.path.dirname(os.path.abspath(__file__)); root = os.path.dirname(here)
SRC = "/repo/src/gtirb_rewriting"
OUT = os.path.join(root, "seeded", "AUTOMUT.json")

def anchors():
    m = {}
    for l in open(os.path.join(root, "properties.jsonl")):
        p = json.loads(l)
        for f in p["anchors"]["files"]:
            m.setdefault(f.replace("src/gtirb_rewriting/", ""), []).append(p["id"])
    return m

CMP = {ast.Eq: "!=", ast.NotEq: "==", ast.Lt: "<=", ast.LtE: "<", ast.Gt: ">=", ast.GtE: ">", ast.Is: "is not",
       ast.IsNot: "is", ast.In: "not in", ast.NotIn: "in"}
CMPTXT = {ast.Eq: "==", ast.NotEq: "!=", ast.Lt: "<", ast.LtE: "<=", ast.Gt: ">", ast.GtE: ">=", ast.Is: "is",
          ast.IsNot: "is not", ast.In: "in", ast.NotIn: "not in"}
BIN = {ast.Add: ("+", "-"), ast.Sub: ("-", "+"), ast.BitOr: ("|", "&"), ast.BitAnd: ("&", "|"), ast.FloorDiv: ("//", "*"),
       ast.Mult: ("*", "//"), ast.LShift: ("<<", ">>"), ast.RShift: (">>", "<<")}

def seg(lines, node):
    return ast.get_source_segment("".join(lines), node)

def between(src, a_end, b_start, old):
    """position of operator text `old` between two absolute offsets"""
    i = src.find(old, a_end, b_start)
    return i

def absoff(lineoffs, lineno, col, linebytes):
    # col is a utf8 byte offset; files are ascii in practice
    return lineoffs[lineno - 1] + col

def enumerate_mutants(path):
    src = open(path).read()
    tree = ast.parse(src)
    lines = src.splitlines(keepends=True)
    offs = [0]
    for l in lines:
        offs.append(offs[-1] + len(l))
    A = lambda n, end=False: offs[(n.end_lineno if end else n.lineno) - 1] + (n.end_col_offset if end else n.col_offset)
    out = []
    def add(kind, start, end, new, lineno):
        out.append({"kind": kind, "start": start, "end": end, "new": new, "line": lineno, "old": src[start:end]})
    # skip docstrings / type-checking-only / logging lines
    for node in ast.walk(tree):
        if isinstance(node, ast.Compare):
            left = node.left
            for op, right in zip(node.ops, node.comparators):
                old = CMPTXT.get(type(op))
                if old:
                    i = between(src, A(left, True), A(right), old)
                    if i >= 0:
                        add("cmp", i, i + len(old), CMP[type(op)], node.lineno)
                left = right
        elif isinstance(node, ast.BinOp) and type(node.op) in BIN:
            old, new = BIN[type(node.op)]
            if isinstance(node.left, ast.Constant) and isinstance(node.left.value, str):
                continue
            i = between(src, A(node.left, True), A(node.right), old)
            if i >= 0:
                add("arith", i, i + len(old), new, node.lineno)
        elif isinstance(node, ast.BoolOp):
            old = "and" if isinstance(node.op, ast.And) else "or"
            new = "or" if old == "and" else "and"
            for a, b in zip(node.values, node.values[1:]):
                i = between(src, A(a, True), A(b), old)
                if i >= 0:
                    add("bool", i, i + len(old), new, node.lineno)
        elif isinstance(node, ast.UnaryOp) and isinstance(node.op, ast.Not):
            s = A(node)
            if src[s:s + 4] == "not ":
                add("dropnot", s, s + 4, "", node.lineno)
        elif isinstance(node, ast.Constant) and type(node.value) is int and 0 <= node.value <= 64:
            s, e = A(node), A(node, True)
            if src[s:e].isdigit():
                add("const", s, e, str(node.value + 1), node.lineno)
                if node.value > 0:
                    add("const", s, e, str(node.value - 1), node.lineno)
        elif isinstance(node, (ast.If, ast.While)) and not (isinstance(node.test, ast.Constant)):
            s, e = A(node.test), A(node.test, True)
            add("negcond", s, e, "(not (" + src[s:e] + "))", node.lineno)
        elif isinstance(node, ast.IfExp):
            s, e = A(node.test), A(node.test, True)
            add("negcond", s, e, "(not (" + src[s:e] + "))", node.lineno)
        elif isinstance(node, ast.Expr) and isinstance(node.value, ast.Call):
            f = seg(lines, node.value.func) or ""
            if f.split(".")[0] in ("logging", "logger", "log", "warnings", "print") or ".log" in f or f.endswith("debug"):
                continue
            s, e = A(node), A(node, True)
            add("dropcall", s, e, "pass", node.lineno)
        elif isinstance(node, ast.AugAssign):
            s, e = A(node), A(node, True)
            add("dropaug", s, e, "pass", node.lineno)
        elif isinstance(node, ast.Break):
            add("brk", A(node), A(node, True), "continue", node.lineno)
        elif isinstance(node, ast.Continue):
            add("brk", A(node), A(node, True), "break", node.lineno)
        elif isinstance(node, ast.Return) and node.value is not None and isinstance(node.value, ast.Constant) and isinstance(node.value.value, bool):
            s, e = A(node.value), A(node.value, True)
            add("retbool", s, e, str(not node.value.value), node.lineno)
    # drop mutants inside `assert` statements and TYPE_CHECKING blocks (not behaviour) and raise messages
    skip = []
    for node in ast.walk(tree):
        if isinstance(node, (ast.Assert, ast.Raise)):
            skip.append((A(node), A(node, True)))
        if isinstance(node, ast.If) and "TYPE_CHECKING" in (seg(lines, node.test) or ""):
            skip.append((A(node), A(node, True)))
    out = [m for m in out if not any(a <= m["start"] < b for a, b in skip)]
    return src, out

def mutated_tree(rel, m):
    d = tempfile.mkdtemp(prefix="automut_", dir="/tmp")
    shutil.copytree(SRC, os.path.join(d, "src", "gtirb_rewriting"), ignore=shutil.ignore_patterns("__pycache__"))
    p = os.path.join(d, "src", "gtirb_rewriting", rel)
    s = open(p).read()
    assert s[m["start"]:m["end"]] == m["old"], (rel, m)
    open(p, "w").write(s[:m["start"]] + m["new"] + s[m["end"]:])
    return d

def tests_pass(rel, m):
    d = mutated_tree(rel, m)
    try:
        try:
            compile(open(os.path.join(d, "src", "gtirb_rewriting", rel)).read(), rel, "exec")
        except SyntaxError:
            return "syntax"
        r = subprocess.run("/venv/bin/python -m pytest -q -x -p no:cacheprovider --timeout=120 --deselect tests/test_e2e.py 2>&1 | tail -1",
                           shell=True, cwd="/repo", capture_output=True, text=True,
                           env=dict(os.environ, PYTHONPATH=d + "/src", PYTHONDONTWRITEBYTECODE="1"))
        t = r.stdout.strip()
        return "pass" if "331 passed" in t and "failed" not in t and "error" not in t else "fail"
    finally:
        shutil.rmtree(d, ignore_errors=True)

def load():
    return json.load(open(OUT)) if os.path.exists(OUT) else {"mutants": []}

def save(db):
    json.dump(db, open(OUT, "w"), indent=1, sort_keys=True)

def arg(name, default=None):
    return sys.argv[sys.argv.index(name) + 1] if name in sys.argv else default

def gen():
    n, seed = int(arg("--n", "300")), int(arg("--seed", "1"))
    anc = anchors()
    files = arg("--files").split(",") if arg("--files") else sorted(anc)
    allm = []
    for rel in files:
        p = os.path.join(SRC, rel)
        if not os.path.exists(p):
            continue
        _, ms = enumerate_mutants(p)
        for m in ms:
            m["file"] = rel
            allm.append(m)
    rnd = random.Random(seed)
    rnd.shuffle(allm)
    db = load()
    have = {(m["file"], m["start"], m["new"]) for m in db["mutants"]}
    pick = [m for m in allm if (m["file"], m["start"], m["new"]) not in have][:n]
    print(f"{len(allm)} candidate mutants in {len(files)} files; sampling {len(pick)}")
    def job(m):
        m["tests"] = tests_pass(m["file"], m)
        return m
    with ThreadPoolExecutor(int(arg("--jobs", "10"))) as ex:
        for k, m in enumerate(ex.map(job, pick)):
            m["props"] = {}
            m["seed"] = seed
            db["mutants"].append(m)
            if k % 20 == 19:
                save(db); print(k + 1, "done", flush=True)
    save(db)
    c = {}
    for m in db["mutants"]:
        c[m["tests"]] = c.get(m["tests"], 0) + 1
    print("tests outcome:", c)

# cheapest checks first
SPEED = ["C16", "C12", "C13", "C03", "C15", "C17", "C07", "C14", "C19", "C04", "C09", "C10", "C18", "C06", "C02", "C05", "C11", "C08", "C01", "C20"]

def run():
    scale = arg("--scale", "0.25")
    limit = int(arg("--limit", "100000"))
    only = set(arg("--props").split(",")) if arg("--props") else None
    anc = anchors()
    db = load()
    done = 0
    for m in db["mutants"]:
        if m["tests"] != "pass" or m.get("final"):
            continue
        if done >= limit:
            break
        props = sorted(anc.get(m["file"], []), key=SPEED.index)
        if only:
            props = [p for p in props if p in only]
        # a file anchored by many properties: the listing-based byte/CFG/closure checks first, at most five
        pref = ["C01", "C03", "C05", "C09", "C02", "C04", "C06", "C08"]
        props = sorted(props, key=lambda p: (pref.index(p) if p in pref and len(props) > 5 else 99, SPEED.index(p)))[:5]
        if not props:
            continue
        d = mutated_tree(m["file"], m)
        try:
            for p in props:
                if m["props"].get(p) in ("KILLED", "SURVIVED"):
                    if m["props"][p] == "KILLED":
                        break
                    continue
                out = tempfile.mkdtemp(prefix="out_", dir=d)
                t = time.time()
                r = subprocess.run(["/venv/bin/python", "-m", "vp.run", p, "--tier", "quick"], cwd=root, capture_output=True, text=True,
                                   env=dict(os.environ, VERIF_REPO_SRC=d + "/src", VERIF_OUT=out, VERIF_BUDGET_SCALE=scale))
                st = {0: "SURVIVED", 1: "KILLED", 2: "HARNESS-ERROR"}.get(r.returncode, f"rc={r.returncode}")
                m["props"][p] = st
                v = [l for l in r.stdout.splitlines() if l.startswith("  C") or l.startswith("HARNESS")]
                if st != "SURVIVED":
                    m.setdefault("first", {})[p] = (v[0][:200] if v else r.stdout[-200:])
                print(f"{m['file']}:{m['line']} {m['kind']} [{m['old'][:30]!r}->{m['new'][:30]!r}] {p}: {st} ({time.time()-t:.0f}s)", flush=True)
                shutil.rmtree(out, ignore_errors=True)
                if st == "KILLED":
                    break
            m["final"] = "KILLED" if "KILLED" in m["props"].values() else ("ERROR" if any(s.startswith(("HARNESS", "rc=")) for s in m["props"].values()) else "SURVIVED")
        finally:
            shutil.rmtree(d, ignore_errors=True)
        done += 1
        save(db)

def show():
    db = load()
    c = {}
    for m in db["mutants"]:
        k = m["tests"] if m["tests"] != "pass" else "tests-pass/" + m.get("final", "not-run")
        c[k] = c.get(k, 0) + 1
    print(c)
    for m in db["mutants"]:
        if m.get("final") in ("SURVIVED", "ERROR"):
            print(f"{m['final']} {m['file']}:{m['line']} {m['kind']} {m['old'][:50]!r} -> {m['new'][:50]!r}  {m['props']}")

{"gen": gen, "run": run, "show": show}[sys.argv[1]]()
