#!/venv/bin/python
import json,sys
sys.path.insert(0,'/verif')
from vp import core; core.setup_repo_path()
from vp import listing as L
for f in sys.argv[1:]:
    d=json.load(open(f))
    print(f, d['failure']['clause'], d['failure']['kind'], d['failure']['detail'][:300], 'count', d.get('count'))
    desc=L.describe(L.Case(d['spec'], allow_after_full_delete=bool(d['spec'].get('allow_after_full_delete'))))
    print("\n".join(desc['listing'])); print("\n".join(desc['edits'])); print(desc['dropped']); print()
