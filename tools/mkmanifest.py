#!/venv/bin/python
"""Regenerate MANIFEST.json from the property modules that exist."""
import importlib, json, os, sys
root = os.path.dirname(os.path.dirname(os.path.abspath(__file__)))
sys.path.insert(0, root)
os.environ.setdefault("PYTHONHASHSEED", "0")
from vp import core
core.setup_repo_path()
props = [json.loads(l) for l in open(os.path.join(root, "properties.jsonl"))]
hook_commits = [l.strip() for l in open(os.path.join(root, "hooks_commits.txt"))] if os.path.exists(os.path.join(root, "hooks_commits.txt")) else []
checks, na, served = [], [], []
for p in props:
    pid = p["id"]
    path = os.path.join(root, "vp", "props", pid.lower() + ".py")
    if not os.path.exists(path):
        na.append({"property_id": pid, "reason": "no check built yet for this property (the technique applies; see DESIGN.md section 3) - not claimed"})
        continue
    mod = importlib.import_module(f"vp.props.{pid.lower()}")
    served.append(pid)
    checks.append({
        "property_id": pid,
        "quick_cmd": f"/venv/bin/python -m vp.run {pid} --tier quick",
        "thorough_cmd": f"/venv/bin/python -m vp.run {pid} --tier thorough",
        "evidence_file": f"evidence/{pid}.json",
        "replay_cmd_template": f"/venv/bin/python -m vp.run {pid} --replay {{path}}",
        "engine": "vp",
        "level_claimed": {
            "category": getattr(mod, "LEVEL", "exploration"),
            "text": getattr(mod, "LEVEL_TEXT", "Generated-input search against an explicit oracle: " + mod.RULE),
            "design_ref": f"DESIGN.md section 3, {pid}",
        },
        "level_note": getattr(mod, "LEVEL_NOTE", "Sampling within stated size bounds, not proof. " + " ".join(mod.ASSUMPTIONS)),
        "technique": mod.TECHNIQUE + ("" if hasattr(mod, "worker") else
                                      "; the thorough tier adds a coverage-guided stage (atheris/libFuzzer shards driving the same "
                                      "strategy through Hypothesis fuzz_one_input, gtirb_rewriting instrumented, same oracle)"),
    })
man = {
    "version": 1,
    "setup_cmd": "(/venv/bin/python -c 'import hypothesis' 2>/dev/null || /venv/bin/pip install --no-index --find-links /opt/veriftools/wheels hypothesis) && (PYTHONPATH=.deps /venv/bin/python -c 'import atheris' 2>/dev/null || /venv/bin/pip install -q --no-index --find-links /opt/veriftools/wheels --target .deps atheris || true)",
    "hooks": {
        "guard": "GTIRB_REWRITING_VERIF",
        "enable": "checks set GTIRB_REWRITING_VERIF=1 in their own process and import gtirb_rewriting from /repo/src (pure Python, nothing to build)",
        "baseline_off_cmd": "cd /repo && env -u GTIRB_REWRITING_VERIF /venv/bin/python -m pytest -ra -q -p no:cacheprovider --timeout=900 --continue-on-collection-errors",
        "source_commits": hook_commits,
        "add_only": True,
    },
    "engines": [{"name": "vp", "path": "vp/", "serves_properties": served,
                 "kind_free_text": "Hypothesis 6.168 spec-first generators (incl. RuleBasedStateMachine for container histories) + independent reference models (listing model, DWARF codec, CFI interpreter, CPU emulators), sharded over 16 processes; exhaustive enumeration where a sub-domain is finite; collect-then-bucket failures, structural shrinking to JSON replay files"}],
    "checks": checks,
    "not_applicable": na,
    "notes": "All checks: exit 0 held / exit 1 + VIOLATION line / exit 2 harness error. Known findings: known_findings.json (open: KNOWN-FINDING line, exit 0; fixed: suppress nothing). Sensitivity mutants: tools/mutants, seeded changes: seeded/.",
}
json.dump(man, open(os.path.join(root, "MANIFEST.json"), "w"), indent=1)
print("checks:", served, "not claimed:", [n["property_id"] for n in na])
