#!/venv/bin/python
"""Copy the results recorded by tools/seedcheck.py (seeded/<id>/meta.json: checks_run, confirmed_by_verifier)
into seeded/KILLMATRIX.json for seeds that tools/killmatrix.py has not run itself."""
import json, os, re
root = os.path.dirname(os.path.dirname(os.path.abspath(__file__)))
p = os.path.join(root, "seeded", "KILLMATRIX.json")
km = json.load(open(p))
for d in sorted(os.listdir(os.path.join(root, "seeded"))):
    mp = os.path.join(root, "seeded", d, "meta.json")
    if not os.path.exists(mp):
        continue
    m = json.load(open(mp))
    for prop, res in (m.get("checks_run") or {}).items():
        key = f"{prop}:seeded/{d}"
        if key in km and km[key]["status"] != "ERROR":
            continue
        status = "KILLED" if res.startswith("KILLED") else "SURVIVED" if res.startswith("SURVIVED") else "ERROR"
        wall = re.search(r"(\d+)s\)", res)
        km[key] = {"property": prop, "kind": "seeded", "change": "seeded/" + d, "status": status,
                   "first_violation": "(see seeded/%s/meta.json)" % d,
                   "baseline_tests": (m.get("confirmed_by_verifier") or {}).get("baseline_tests_with_patch"),
                   "wall_s": int(wall.group(1)) if wall else None,
                   "note": None if prop == m.get("property") else "author's guess of a further property (also)"}
json.dump(km, open(p, "w"), indent=1, sort_keys=True)
print(len(km))
